"""Independent, strict parser for the server->client IMAP byte stream.

Written from the RFC 3501 section 9 grammar plus the extensions pymap
advertises (LITERAL+, BINARY, UIDPLUS, MOVE, ID, OBJECTID, CHILDREN, IDLE,
MULTIAPPEND, APPENDLIMIT).  It never imports pymap.

parse_stream(data) -> (responses, consumed, error)
   responses: list[Resp];  consumed: number of bytes that formed complete
   responses; error: None, or a ParseError describing the first byte at which
   the stream stops being well-formed.  Trailing bytes that are a *prefix* of
   a response yield error.kind == 'incomplete'.
"""
from __future__ import annotations

import re

__all__ = ['Resp', 'ParseError', 'parse_stream', 'body_parts', 'Atom']


class ParseError(Exception):
    def __init__(self, kind: str, offset: int, msg: str) -> None:
        super().__init__(f'{kind} at byte {offset}: {msg}')
        self.kind = kind          # 'grammar' | 'incomplete'
        self.offset = offset
        self.msg = msg


class _Incomplete(Exception):
    pass


class Atom(bytes):
    """An atom / number token inside a parenthesised value."""
    def __repr__(self) -> str:
        return 'Atom(%s)' % bytes.__repr__(self)


class Resp:
    __slots__ = ('kind', 'tag', 'name', 'num', 'code', 'code_arg', 'text',
                 'data', 'raw')

    def __init__(self, kind, tag=None, name=None, num=None, code=None,
                 code_arg=None, text=None, data=None, raw=b''):
        self.kind = kind        # 'cont' | 'untagged' | 'tagged'
        self.tag = tag
        self.name = name        # OK NO BAD BYE PREAUTH EXISTS FETCH LIST ...
        self.num = num
        self.code = code        # response code atom (upper) or None
        self.code_arg = code_arg
        self.text = text
        self.data = data
        self.raw = raw

    def __repr__(self) -> str:
        parts = [self.kind]
        for k in ('tag', 'name', 'num', 'code', 'code_arg', 'text', 'data'):
            v = getattr(self, k)
            if v is not None:
                parts.append(f'{k}={v!r}')
        return 'Resp(' + ', '.join(parts) + ')'


_ATOM_SPECIALS = set(b'(){ %*"\\]') | set(range(0, 0x20)) | {0x7f}
_ATOM_CHARS = frozenset(c for c in range(0x21, 0x7f)
                        if c not in _ATOM_SPECIALS)
_ASTRING_CHARS = _ATOM_CHARS | {ord(']')}
_TAG_CHARS = _ASTRING_CHARS - {ord('+')}
_DIGITS = frozenset(b'0123456789')
_DATE_RE = re.compile(
    rb'^(?: \d|\d\d)-(?:Jan|Feb|Mar|Apr|May|Jun|Jul|Aug|Sep|Oct|Nov|Dec)-'
    rb'\d{4} \d\d:\d\d:\d\d [+-]\d{4}$')
_B64_RE = re.compile(rb'^[A-Za-z0-9+/]*={0,2}$')


class _P:
    def __init__(self, buf: bytes, pos: int) -> None:
        self.b = buf
        self.i = pos
        self.n = len(buf)

    # -- primitives ---------------------------------------------------------
    def fail(self, msg: str):
        raise ParseError('grammar', self.i, msg)

    def peek(self) -> int:
        if self.i >= self.n:
            raise _Incomplete()
        return self.b[self.i]

    def peek_is(self, lit: bytes) -> bool:
        end = self.i + len(lit)
        if end > self.n:
            if self.b[self.i:self.n] == lit[:self.n - self.i]:
                raise _Incomplete()
            return False
        return self.b[self.i:end] == lit

    def expect(self, lit: bytes) -> None:
        end = self.i + len(lit)
        got = self.b[self.i:end]
        if got != lit:
            if end > self.n and lit.startswith(got):
                raise _Incomplete()
            self.fail('expected %r, found %r' % (lit, bytes(got)))
        self.i = end

    def sp(self) -> None:
        self.expect(b' ')

    def crlf(self) -> None:
        self.expect(b'\r\n')

    def take_while(self, charset, what: str, minimum: int = 1) -> bytes:
        j = self.i
        b = self.b
        n = self.n
        while j < n and b[j] in charset:
            j += 1
        if j == n:
            raise _Incomplete()
        if j - self.i < minimum:
            self.fail('expected %s, found %r' % (what, bytes(b[j:j + 1])))
        out = bytes(b[self.i:j])
        self.i = j
        return out

    def number(self) -> int:
        return int(self.take_while(_DIGITS, 'number'))

    def atom(self) -> bytes:
        return self.take_while(_ATOM_CHARS, 'atom')

    def quoted(self) -> bytes:
        self.expect(b'"')
        out = bytearray()
        b = self.b
        while True:
            if self.i >= self.n:
                raise _Incomplete()
            c = b[self.i]
            if c == 0x22:
                self.i += 1
                return bytes(out)
            if c == 0x5c:
                if self.i + 1 >= self.n:
                    raise _Incomplete()
                d = b[self.i + 1]
                if d not in (0x22, 0x5c):
                    self.fail('bad escape \\%r in quoted string'
                              % bytes([d]))
                out.append(d)
                self.i += 2
                continue
            if c in (0x0d, 0x0a, 0x00):
                self.fail('CR/LF/NUL (0x%02x) inside quoted string' % c)
            out.append(c)
            self.i += 1

    def literal(self, binary_ok: bool = False) -> bytes:
        if self.peek() == 0x7e:    # '~'
            if not binary_ok:
                self.fail('literal8 not allowed here')
            self.i += 1
        self.expect(b'{')
        n = self.number()
        self.expect(b'}')
        self.crlf()
        if self.i + n > self.n:
            raise _Incomplete()
        data = bytes(self.b[self.i:self.i + n])
        self.i += n
        return data

    def string(self, binary_ok: bool = False) -> bytes:
        c = self.peek()
        if c == 0x22:
            return self.quoted()
        if c == 0x7b or c == 0x7e:
            return self.literal(binary_ok)
        self.fail('expected string, found %r' % bytes([c]))

    def nstring(self, binary_ok: bool = False):
        if self.peek_is(b'NIL'):
            self.i += 3
            return None
        return self.string(binary_ok)

    def astring(self) -> bytes:
        c = self.peek()
        if c in (0x22, 0x7b):
            return self.string()
        return self.take_while(_ASTRING_CHARS, 'astring')

    def flag(self) -> bytes:
        if self.peek() == 0x5c:
            self.i += 1
            if self.peek() == 0x2a:
                self.i += 1
                return b'\\*'
            return b'\\' + self.atom()
        return self.atom()

    def flag_list(self) -> list[bytes]:
        self.expect(b'(')
        out: list[bytes] = []
        if self.peek() == 0x29:
            self.i += 1
            return out
        while True:
            out.append(self.flag())
            if self.peek() == 0x29:
                self.i += 1
                return out
            self.sp()

    def value(self, depth: int = 0):
        """Generic parenthesised value: NIL / number / atom / string / list."""
        if depth > 4000:
            self.fail('nesting too deep')
        c = self.peek()
        if c == 0x28:
            self.i += 1
            out = PList()
            if self.peek() == 0x29:
                self.i += 1
                return out
            while True:
                out.append(self.value(depth + 1))
                c = self.peek()
                if c == 0x29:
                    self.i += 1
                    return out
                if c == 0x28 and isinstance(out[-1], list):
                    out.spaced.append(False)
                    continue        # ")(" adjacency (body / address lists)
                self.sp()
                out.spaced.append(True)
        if c in (0x22, 0x7b):
            return self.string()
        if c == 0x7e:
            return self.string(True)
        a = self.take_while(_ATOM_CHARS | {0x5c}, 'value')
        if a == b'NIL':
            return None
        return Atom(a)

    def text_to_crlf(self) -> bytes:
        j = self.b.find(b'\n', self.i)
        if j < 0:
            raise _Incomplete()
        if j == self.i or self.b[j - 1] != 0x0d:
            self.i = j
            self.fail('bare LF in response text')
        text = bytes(self.b[self.i:j - 1])
        if b'\r' in text:
            self.i += text.index(b'\r')
            self.fail('bare CR in response text')
        if b'\0' in text:
            self.i += text.index(b'\0')
            self.fail('NUL in response text')
        self.i = j + 1
        return text

    # -- response text / codes ---------------------------------------------
    def resp_text(self):
        code = code_arg = None
        if self.peek() == 0x5b:
            self.i += 1
            code = self.take_while(_ATOM_CHARS, 'response code').upper()
            code_arg = self.code_arg(code)
            self.expect(b']')
            if self.peek_is(b'\r\n'):
                text = b''
                self.crlf()
                return code, code_arg, text
            self.sp()
        at = self.i
        text = self.text_to_crlf()
        if not text:
            # text = 1*TEXT-CHAR
            self.i = at
            self.fail('empty response text')
        return code, code_arg, text

    def code_arg(self, code: bytes):
        if self.peek() == 0x5d:
            return None
        self.sp()
        if code == b'CAPABILITY':
            caps = [self.atom()]
            while self.peek() == 0x20:
                self.i += 1
                caps.append(self.atom())
            return caps
        if code == b'PERMANENTFLAGS':
            return self.flag_list()
        if code in (b'UIDNEXT', b'UIDVALIDITY', b'UNSEEN'):
            return self.number()
        if code == b'APPENDUID':
            v = self.number()
            self.sp()
            return (v, self.seqset())
        if code == b'COPYUID':
            v = self.number()
            self.sp()
            a = self.seqset()
            self.sp()
            return (v, a, self.seqset())
        if code == b'MAILBOXID':
            self.expect(b'(')
            oid = self.take_while(_ATOM_CHARS, 'objectid')
            self.expect(b')')
            return oid
        # generic: 1*<any TEXT-CHAR except "]">
        j = self.i
        while True:
            if j >= self.n:
                raise _Incomplete()
            c = self.b[j]
            if c == 0x5d:
                break
            if c in (0x0d, 0x0a, 0x00):
                self.i = j
                self.fail('CR/LF/NUL in response code')
            j += 1
        out = bytes(self.b[self.i:j])
        self.i = j
        return out

    def seqset(self) -> bytes:
        s = self.take_while(frozenset(b'0123456789:,*'), 'sequence-set')
        for part in s.split(b','):
            if not re.match(rb'^(\d+|\*)(:(\d+|\*))?$', part):
                self.fail('malformed sequence set %r' % s)
        return s

    # -- fetch ---------------------------------------------------------------
    def section(self) -> bytes:
        self.expect(b'[')
        start = self.i
        while True:
            c = self.peek()
            if c == 0x5d:
                out = bytes(self.b[start:self.i])
                self.i += 1
                return out
            if c == 0x22:
                self.quoted()
                continue
            if c in (0x0d, 0x0a, 0x00):
                self.fail('CR/LF/NUL in section')
            self.i += 1

    def origin(self):
        if self.peek() == 0x3c:
            self.i += 1
            n = self.number()
            self.expect(b'>')
            return n
        return None

    def msg_att(self) -> dict:
        self.expect(b'(')
        items: dict = {}
        order: list = []
        pairs: list = []
        if self.peek() == 0x29:
            self.fail('empty msg-att list')
        while True:
            name = self.take_while(
                frozenset(b'ABCDEFGHIJKLMNOPQRSTUVWXYZabcdefghijklmnopqrstuvwxyz0123456789.'),
                'fetch item name').upper()
            if name == b'FLAGS':
                self.sp()
                key, val = 'FLAGS', self.flag_list()
            elif name == b'UID':
                self.sp()
                key, val = 'UID', self.number()
            elif name == b'RFC822.SIZE':
                self.sp()
                key, val = 'RFC822.SIZE', self.number()
            elif name == b'INTERNALDATE':
                self.sp()
                at = self.i
                val = self.quoted()
                if not _DATE_RE.match(val):
                    self.i = at
                    self.fail('malformed date-time %r' % val)
                key = 'INTERNALDATE'
            elif name == b'ENVELOPE':
                self.sp()
                at = self.i
                val = self.value()
                err = _check_envelope(val)
                if err:
                    self.i = at
                    self.fail('malformed ENVELOPE: ' + err)
                key = 'ENVELOPE'
            elif name in (b'BODY', b'BODYSTRUCTURE') and self.peek() == 0x20:
                self.sp()
                at = self.i
                val = self.value()
                try:
                    body_parts(val)
                except ValueError as exc:
                    self.i = at
                    self.fail('malformed %s: %s' % (name.decode(), exc))
                key = name.decode()
            elif name == b'BODY':
                sec = self.section()
                org = self.origin()
                self.sp()
                key = ('BODY', sec.upper(), org)
                val = self.nstring()
            elif name in (b'RFC822', b'RFC822.HEADER', b'RFC822.TEXT'):
                self.sp()
                key, val = name.decode(), self.nstring()
            elif name == b'BINARY':
                sec = self.section()
                org = self.origin()
                self.sp()
                key = ('BINARY', sec, org)
                val = self.nstring(True)
            elif name == b'BINARY.SIZE':
                sec = self.section()
                self.sp()
                key, val = ('BINARY.SIZE', sec), self.number()
            elif name == b'EMAILID':
                self.sp()
                self.expect(b'(')
                val = self.take_while(_ATOM_CHARS, 'objectid')
                self.expect(b')')
                key = 'EMAILID'
            elif name == b'THREADID':
                self.sp()
                if self.peek_is(b'NIL'):
                    self.i += 3
                    val = None
                else:
                    self.expect(b'(')
                    val = self.take_while(_ATOM_CHARS, 'objectid')
                    self.expect(b')')
                key = 'THREADID'
            else:
                self.fail('unknown fetch item %r' % name)
            items[key] = val
            order.append(key)
            pairs.append((key, val))
            if self.peek() == 0x29:
                self.i += 1
                items['_order'] = order
                items['_pairs'] = pairs     # (items may repeat a name)
                return items
            self.sp()

    # -- one response --------------------------------------------------------
    def response(self) -> Resp:
        start = self.i
        c = self.peek()
        if c == 0x2b:                       # '+'
            self.i += 1
            if self.peek_is(b'\r\n'):
                self.crlf()
                return Resp('cont', text=b'', raw=self.b[start:self.i])
            self.sp()
            text = self.text_to_crlf()
            return Resp('cont', text=text, raw=self.b[start:self.i])
        if c == 0x2a:                       # '*'
            self.i += 1
            self.sp()
            r = self.untagged()
            r.raw = bytes(self.b[start:self.i])
            return r
        tag = self.take_while(_TAG_CHARS, 'tag')
        self.sp()
        cond = self.take_while(_ATOM_CHARS, 'condition').upper()
        if cond not in (b'OK', b'NO', b'BAD'):
            self.fail('bad tagged condition %r' % cond)
        self.sp()
        code, arg, text = self.resp_text()
        return Resp('tagged', tag=tag, name=cond.decode(), code=code,
                    code_arg=arg, text=text, raw=bytes(self.b[start:self.i]))

    def untagged(self) -> Resp:
        c = self.peek()
        if c in _DIGITS:
            num = self.number()
            self.sp()
            word = self.atom().upper()
            if word in (b'EXISTS', b'RECENT', b'EXPUNGE'):
                self.crlf()
                return Resp('untagged', name=word.decode(), num=num)
            if word == b'FETCH':
                self.sp()
                data = self.msg_att()
                self.crlf()
                return Resp('untagged', name='FETCH', num=num, data=data)
            self.fail('unknown numeric untagged response %r' % word)
        word = self.atom().upper()
        if word in (b'OK', b'NO', b'BAD', b'BYE', b'PREAUTH'):
            self.sp()
            code, arg, text = self.resp_text()
            return Resp('untagged', name=word.decode(), code=code,
                        code_arg=arg, text=text)
        if word == b'CAPABILITY':
            caps = []
            while self.peek() == 0x20:
                self.i += 1
                caps.append(self.atom())
            self.crlf()
            return Resp('untagged', name='CAPABILITY', data=caps)
        if word == b'FLAGS':
            self.sp()
            fl = self.flag_list()
            self.crlf()
            return Resp('untagged', name='FLAGS', data=fl)
        if word == b'SEARCH':
            nums = []
            while self.peek() == 0x20:
                self.i += 1
                nums.append(self.number())
            self.crlf()
            return Resp('untagged', name='SEARCH', data=nums)
        if word in (b'LIST', b'LSUB'):
            self.sp()
            attrs = self.flag_list()
            self.sp()
            if self.peek_is(b'NIL'):
                self.i += 3
                delim = None
            else:
                at = self.i
                delim = self.quoted()
                if len(delim) != 1:
                    self.i = at
                    self.fail('delimiter must be one character')
            self.sp()
            name = self.astring()
            self.crlf()
            return Resp('untagged', name=word.decode(),
                        data=(attrs, delim, name))
        if word == b'STATUS':
            self.sp()
            name = self.astring()
            self.sp()
            self.expect(b'(')
            st: dict = {}
            if self.peek() != 0x29:
                while True:
                    att = self.atom().upper()
                    self.sp()
                    if att == b'MAILBOXID':
                        self.expect(b'(')
                        st[att.decode()] = self.take_while(_ATOM_CHARS,
                                                           'objectid')
                        self.expect(b')')
                    else:
                        st[att.decode()] = self.number()
                    if self.peek() == 0x29:
                        break
                    self.sp()
            self.expect(b')')
            self.crlf()
            return Resp('untagged', name='STATUS', data=(name, st))
        if word == b'ID':
            self.sp()
            if self.peek_is(b'NIL'):
                self.i += 3
                val = None
            else:
                at = self.i
                val = self.value()
                if not isinstance(val, list) or len(val) % 2 or any(
                        isinstance(v, (list, Atom)) for v in val):
                    self.i = at
                    self.fail('malformed ID parameter list')
            self.crlf()
            return Resp('untagged', name='ID', data=val)
        self.fail('unknown untagged response %r' % word)


def _is_nstring(v) -> bool:
    return v is None or (isinstance(v, bytes) and not isinstance(v, Atom))


class PList(list):
    """A parsed parenthesised list; ``spaced[k]`` tells whether a space
    stood between element k and element k+1."""

    def __init__(self, *a):
        super().__init__(*a)
        self.spaced: list = []


def _check_addr_list(v) -> str | None:
    if v is None:
        return None
    if not isinstance(v, list) or not v:
        return 'address list must be NIL or non-empty list'
    if any(getattr(v, 'spaced', ())):
        # env-to = "(" 1*address ")": nothing between the addresses
        return 'space between addresses'
    for a in v:
        if not isinstance(a, list) or len(a) != 4 \
                or not all(_is_nstring(x) for x in a):
            return 'address must be 4 nstrings'
    return None


def _check_envelope(v) -> str | None:
    if not isinstance(v, list) or len(v) != 10:
        return 'envelope must have 10 fields'
    for idx in (0, 1, 8, 9):
        if not _is_nstring(v[idx]):
            return 'field %d must be nstring' % idx
    for idx in range(2, 8):
        err = _check_addr_list(v[idx])
        if err:
            return 'field %d: %s' % (idx, err)
    return None


def _num(v, what: str) -> int:
    if not isinstance(v, Atom) or not v.isdigit():
        raise ValueError('%s must be a number, got %r' % (what, v))
    return int(v)


def _check_dsp(x):
    # body-fld-dsp = "(" string SP body-fld-param ")" / nil
    if x is None:
        return
    if not (isinstance(x, list) and len(x) == 2 and _is_nstring(x[0])
            and x[0] is not None and not isinstance(x[0], list)):
        raise ValueError('body-fld-dsp must be NIL or (string param-list), '
                         'got %r' % (x,))
    prm = x[1]
    if not (prm is None or (isinstance(prm, list) and prm
                            and len(prm) % 2 == 0
                            and all(_is_nstring(y) and y is not None
                                    and not isinstance(y, list)
                                    for y in prm))):
        raise ValueError('body-fld-dsp parameters must be NIL or string '
                         'pairs, got %r' % (prm,))


def _check_ext(ext, multipart: bool):
    """body-ext-1part / body-ext-mpart (RFC 3501 section 9)."""
    if not ext:
        return
    first = ext[0]
    if multipart:
        if not (first is None or (isinstance(first, list) and first
                                  and len(first) % 2 == 0)):
            raise ValueError('multipart body-fld-param must be NIL or '
                             'string pairs, got %r' % (first,))
    elif isinstance(first, list) or not _is_nstring(first):
        raise ValueError('body-fld-md5 must be nstring, got %r' % (first,))
    if len(ext) > 1:
        _check_dsp(ext[1])
    if len(ext) > 2:
        lang = ext[2]
        if isinstance(lang, list):
            if not lang or not all(_is_nstring(y) and y is not None
                                   and not isinstance(y, list) for y in lang):
                raise ValueError('body-fld-lang list must hold strings')
        elif not _is_nstring(lang):
            raise ValueError('body-fld-lang must be nstring or list')
    if len(ext) > 3:
        if isinstance(ext[3], list) or not _is_nstring(ext[3]):
            raise ValueError('body-fld-loc must be nstring, got %r'
                             % (ext[3],))


def body_parts(v, path: tuple = ()) -> dict:
    """Interpret a parsed BODY/BODYSTRUCTURE value.  Returns a dict
    {path(tuple of ints): info}; info has type, subtype, octets (for
    single parts), lines (text/message), children count (multipart).
    Raises ValueError when the structure is not RFC 3501 ``body``."""
    out: dict = {}
    if not isinstance(v, list) or not v:
        raise ValueError('body must be a non-empty list')
    if isinstance(v[0], list):
        n = 0
        while n < len(v) and isinstance(v[n], list):
            n += 1
        if n >= len(v) or not _is_nstring(v[n]) or v[n] is None:
            raise ValueError('multipart must end in a subtype string')
        if any(getattr(v, 'spaced', ())[:n - 1]):
            # body-type-mpart = 1*body SP media-subtype
            raise ValueError('space between the bodies of a multipart')
        out[path] = {'type': b'MULTIPART', 'subtype': v[n].upper(),
                     'children': n}
        for k in range(n):
            out.update(body_parts(v[k], path + (k + 1,)))
        _check_ext(v[n + 1:], True)
        return out
    if len(v) < 7:
        raise ValueError('single part needs >= 7 fields, got %d' % len(v))
    typ, sub, param, cid, desc, enc, octets = v[:7]
    for name, x in (('type', typ), ('subtype', sub), ('encoding', enc)):
        if x is None or not _is_nstring(x):
            raise ValueError('%s must be a string' % name)
    if not (param is None or (isinstance(param, list) and len(param) % 2 == 0
                              and param
                              and all(_is_nstring(x) and x is not None
                                      for x in param))):
        raise ValueError('body-fld-param must be NIL or string pairs')
    if not _is_nstring(cid) or not _is_nstring(desc):
        raise ValueError('id/desc must be nstring')
    info = {'type': typ.upper(), 'subtype': sub.upper(),
            'octets': _num(octets, 'octets'), 'param': param, 'enc': enc}
    idx = 7
    if info['type'] == b'MESSAGE' and info['subtype'] == b'RFC822' \
            and len(v) >= 10 and isinstance(v[7], list) \
            and isinstance(v[8], list):
        err = _check_envelope(v[7])
        if err:
            raise ValueError('embedded envelope: ' + err)
        sub_parts = body_parts(v[8], path + ('msg',))
        info['embedded'] = sub_parts
        info['lines'] = _num(v[9], 'lines')
        idx = 10
    elif info['type'] == b'TEXT':
        if len(v) < 8:
            raise ValueError('text part needs a line count')
        info['lines'] = _num(v[7], 'lines')
        idx = 8
    _check_ext(v[idx:], False)
    out[path] = info
    return out


def parse_stream(data: bytes, pos: int = 0):
    """Parse as many complete responses as possible from data[pos:]."""
    data = bytes(data)
    out: list[Resp] = []
    p = _P(data, pos)
    consumed = pos
    while p.i < p.n:
        try:
            r = p.response()
        except _Incomplete:
            return out, consumed, ParseError(
                'incomplete', consumed,
                'stream ends inside a response: %r' % data[consumed:consumed + 80])
        except ParseError as exc:
            return out, consumed, exc
        except RecursionError:
            return out, consumed, ParseError('grammar', p.i, 'recursion')
        out.append(r)
        consumed = p.i
    return out, consumed, None


# --------------------------------------------------------------------------
# RFC 5804 (ManageSieve) responses


def parse_sieve_stream(data: bytes, pos: int = 0):
    """ManageSieve: lines of  string [SP string] CRLF  or
    (OK|NO|BYE) [SP (code)] [SP string] CRLF.  Returns (items, consumed, err)
    where items are ('data', [strings]) and ('status', cond, code, text)."""
    data = bytes(data)
    p = _P(data, pos)
    out = []
    consumed = pos
    while p.i < p.n:
        try:
            c = p.peek()
            if c in (0x22, 0x7b):
                vals = [_sieve_string(p)]
                while p.peek() == 0x20:
                    p.i += 1
                    if p.peek() in (0x22, 0x7b):
                        vals.append(_sieve_string(p))
                    else:
                        vals.append(Atom(p.atom()))
                p.crlf()
                out.append(('data', vals))
            else:
                cond = p.atom().upper()
                if cond not in (b'OK', b'NO', b'BYE'):
                    p.fail('bad sieve condition %r' % cond)
                code = text = None
                if p.peek() == 0x20:
                    p.i += 1
                    if p.peek() == 0x28:
                        p.i += 1
                        j = p.b.find(b')', p.i)
                        k = p.b.find(b'\n', p.i)
                        if j < 0 and k < 0:
                            raise _Incomplete()
                        if j < 0 or (0 <= k < j):
                            p.fail('unterminated response code')
                        code = bytes(p.b[p.i:j])
                        p.i = j + 1
                        if p.peek() == 0x20:
                            p.i += 1
                            text = _sieve_string(p)
                    else:
                        text = _sieve_string(p)
                p.crlf()
                out.append(('status', cond.decode(), code, text))
        except _Incomplete:
            return out, consumed, ParseError('incomplete', consumed,
                                             'stream ends inside a response')
        except ParseError as exc:
            return out, consumed, exc
        consumed = p.i
    return out, consumed, None


def _sieve_string(p: _P) -> bytes:
    if p.peek() == 0x22:
        return p.quoted()
    # RFC 5804 server literals are {n} CRLF (no '+')
    p.expect(b'{')
    n = p.number()
    if p.peek() == 0x2b:
        p.i += 1
    p.expect(b'}')
    p.crlf()
    if p.i + n > p.n:
        raise _Incomplete()
    data = bytes(p.b[p.i:p.i + n])
    p.i += n
    return data
