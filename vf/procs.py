"""E7 -- several server processes (or worker threads) over one maildir,
scheduled at filesystem calls.

Why this is a sound reduction: in the maildir backend every session has its
own MailboxSet, MailboxData, locks and caches; two sessions -- whether they are
worker threads of one server (the production default, the threading
subsystem) or separate server processes -- share nothing but the filesystem
and coordinate only through it (``dovecot-uidlist.lock``, rename).  Every
execution of such a system is therefore equivalent to one in which the
sessions take turns at the boundaries of their filesystem calls, each call
being atomic.  E7 owns exactly those turns.

Each *process* is a real pymap server (MaildirWorld: own backend objects, own
VLoop) on the shared directory, executing in its own OS thread.  A baton makes
sure exactly one thread runs; a thread hands the baton back to the controller
immediately before every filesystem call it makes under the scratch root (via
the E6 interposer's ``on_sched`` hook), when its event loop has nothing left
to run, and when it goes to sleep on a timer (FileLock's retry loop).  The
clock is virtual and shared.

``Sched.run(prefix)`` executes one schedule: it replays the choices in
``prefix`` (an out-of-range choice is a hard error) and takes choice 0 --
"keep running the current process" -- afterwards.  ``explore`` enumerates all
schedules with at most ``bound`` preemptions (iterative context bounding:
switching away from a process that could have continued costs one; switches
at blocking points, command boundaries and process exit are free).
"""
from __future__ import annotations

import os
import threading

_tl = threading.local()


class ScheduleError(RuntimeError):
    pass


class Proc:
    def __init__(self, pid: int, world, session) -> None:
        self.pid = pid
        self.world = world
        self.loop = world.loop
        self.session = session
        self.sem = threading.Semaphore(0)
        self.status = 'idle'         # 'idle' | 'fs' | 'running'
        self.at = None               # (op, paths, mutating) when 'fs'
        self.thread = None
        self.stop = False
        self.error = None
        self.program: list[bytes] = []
        self.pc = 0
        self.tag = None              # tag of the command in flight
        self.results: list = []      # (line, tagged resp or None, responses)
        self._cur_resps: list = []
        self.dirty = False           # another process changed the disk while
        #                              this one was asleep
        self.boundary = True         # at a command boundary: switch is free
        self.fs_calls = 0

    # -- observation by the controller (process not running) --------------
    def pull(self) -> None:
        data, rs = self.session.pull()
        for r in rs:
            self._cur_resps.append(r)
            if r.kind == 'tagged' and self.tag is not None \
                    and r.tag == self.tag:
                self.results.append((self.program[self.pc - 1], r,
                                     self._cur_resps))
                self._cur_resps = []
                self.tag = None

    @property
    def in_flight(self) -> bool:
        return self.tag is not None

    @property
    def finished(self) -> bool:
        return self.tag is None and self.pc >= len(self.program)

    def has_ready(self) -> bool:
        # timers are blocking waits: they fire when the controller decides
        # to wake the sleeper, not because another process moved the clock
        return bool(self.loop._ready)


class TaskProc(Proc):
    """A process that runs one coroutine on its own loop (no IMAP
    connection): used for exploring the lock primitives directly."""

    def __init__(self, pid: int, loop, task) -> None:
        self.pid = pid
        self.world = None
        self.loop = loop
        self.session = None
        self.sem = threading.Semaphore(0)
        self.status = 'idle'
        self.at = None
        self.thread = None
        self.stop = False
        self.error = None
        self.program = []
        self.pc = 0
        self.tag = None
        self.results = []
        self._cur_resps = []
        self.dirty = False
        self.boundary = True
        self.fs_calls = 0
        self.task = task

    def pull(self) -> None:
        pass

    @property
    def in_flight(self) -> bool:
        return not self.task.done()

    @property
    def finished(self) -> bool:
        return self.task.done()


class Point:
    __slots__ = ('n', 'cur_enabled', 'desc', 'lockp')

    def __init__(self, n, cur_enabled, desc, lockp=False) -> None:
        self.n = n
        self.cur_enabled = cur_enabled
        self.desc = desc
        # the running process is parked at an operation on a lock file
        self.lockp = lockp


class Execution:
    def __init__(self) -> None:
        self.points: list[Point] = []
        self.choices: list[int] = []
        self.trace: list = []        # (pid, what) per resume
        self.stuck: list = []        # processes that never completed
        self.horizon_hit = False
        self.resumes = 0

    def preemptions_before(self, i: int) -> int:
        n = 0
        for p, c in zip(self.points[:i], self.choices[:i]):
            if c != 0 and p.cur_enabled:
                n += 1
        return n

    def lock_preemptions_before(self, i: int) -> int:
        """Preemptions taken at a lock-file operation."""
        n = 0
        for p, c in zip(self.points[:i], self.choices[:i]):
            if c != 0 and p.cur_enabled and p.lockp:
                n += 1
        return n


class Sched:
    """Controller of one execution.  Build the worlds and sessions first (on
    the calling thread, no scheduling), then ``add`` the processes with their
    programs and call ``run``."""

    def __init__(self, jail, private_dirs=(), shared_root=None,
                 max_resumes: int = 20000) -> None:
        self.jail = jail
        self.private = tuple(os.path.abspath(d) + os.sep for d in private_dirs)
        self.shared = os.path.abspath(shared_root or jail.root) + os.sep
        self.procs: list[Proc] = []
        self.main = threading.Semaphore(0)
        self.max_resumes = max_resumes
        self.active = False

    def add_task(self, loop, task) -> TaskProc:
        p = TaskProc(len(self.procs), loop, task)
        self.procs.append(p)
        return p

    def add(self, world, session, program) -> Proc:
        p = Proc(len(self.procs), world, session)
        p.program = list(program)
        self.procs.append(p)
        return p

    # -- process threads ---------------------------------------------------
    def _body(self, p: Proc) -> None:
        _tl.proc = p
        from .worlds import set_thread_skew
        set_thread_skew((p.pid + 1) * 13e-6)
        while True:
            p.sem.acquire()
            if p.stop:
                return
            try:
                p.loop.run_until_quiescent(timers=False)
            except BaseException as exc:      # noqa: BLE001
                p.error = exc
            p.status = 'idle'
            self.main.release()

    def _point(self, op, paths, mutating) -> None:
        p = getattr(_tl, 'proc', None)
        if p is None or not self.active:
            return
        shared = False
        for x in paths:
            if isinstance(x, (str, bytes, os.PathLike)):
                ap = os.path.abspath(os.fsdecode(x))
                if ap.startswith(self.private):
                    # a process-private temporary file: not shared state
                    continue
                if ap.startswith(self.shared):
                    shared = True
        if not shared:
            return
        p.fs_calls += 1
        p.status = 'fs'
        p.at = (op, tuple(os.path.basename(os.fsdecode(x))
                          if isinstance(x, (str, bytes, os.PathLike))
                          else str(x) for x in paths), mutating)
        self.main.release()
        p.sem.acquire()

    def _done(self, op, ok) -> None:
        # a mutating filesystem call of the running process has completed
        p = getattr(_tl, 'proc', None)
        if p is None or not self.active or not ok:
            return
        for q in self.procs:
            if q is not p:
                q.dirty = True

    def _resume(self, p: Proc, ex: Execution) -> None:
        what = p.at[:2] if p.status == 'fs' else ('run',)
        ex.trace.append((p.pid,) + tuple(what))
        ex.resumes += 1
        p.status = 'running'
        p.sem.release()
        self.main.acquire()
        if p.error is not None:
            raise ScheduleError(f'process {p.pid}: {p.error!r}') \
                from p.error

    # -- one execution ---------------------------------------------------
    def run(self, prefix=()) -> Execution:
        ex = Execution()
        prefix = list(prefix)
        self.active = True
        self.jail.on_sched = self._point
        self.jail.on_done = self._done
        for p in self.procs:
            p.thread = threading.Thread(target=self._body, args=(p,),
                                        daemon=True)
            p.thread.start()
        cur = None
        try:
            while True:
                if ex.resumes > self.max_resumes:
                    ex.horizon_hit = True
                    break
                runnable, sleeping = [], []
                for p in self.procs:
                    if p.status == 'fs':
                        runnable.append(p)
                        continue
                    p.pull()
                    if p.has_ready():
                        runnable.append(p)
                        continue
                    if not p.in_flight and p.pc < len(p.program):
                        # client sends its next command
                        p.tag = b'p%dc%d' % (p.pid, p.pc)
                        p.session.conn.feed(p.tag + b' ' + p.program[p.pc]
                                            + b'\r\n')
                        p.pc += 1
                        p.boundary = True
                        runnable.append(p)
                        continue
                    if p.in_flight:
                        if p.loop.next_timer() is not None:
                            sleeping.append(p)
                        # else: blocked for good (reported below)
                enabled = runnable + [p for p in sleeping if p.dirty]
                if not enabled:
                    if not sleeping:
                        break
                    # everybody waits: time passes until the first deadline
                    p = min(sleeping, key=lambda q: (q.loop.next_timer(),
                                                     q.pid))
                    p.loop.advance_to_next_timer()
                    p.dirty = False
                    continue
                enabled.sort(key=lambda q: (q is not cur, q.pid))
                idx = 0
                if len(enabled) > 1:
                    k = len(ex.points)
                    if k < len(prefix):
                        idx = prefix[k]
                        if not 0 <= idx < len(enabled):
                            raise ScheduleError(
                                f'replay diverged at point {k}: choice {idx} '
                                f'of {len(enabled)}')
                    cur_en = (cur is not None and enabled[0] is cur
                              and cur.status == 'fs' and not cur.boundary)
                    # (taking or releasing a lock file, not looking at it)
                    lockp = bool(cur_en and cur.at[0] in (
                        'open-w', 'unlink', 'remove') and any(
                        str(x).endswith('.lock') for x in cur.at[1]))
                    ex.points.append(Point(
                        len(enabled), cur_en,
                        [(q.pid, q.at[:2] if q.status == 'fs' else
                          ('wake' if q in sleeping else 'run',))
                         for q in enabled], lockp))
                    ex.choices.append(idx)
                p = enabled[idx]
                if p in sleeping:
                    p.loop.advance_to_next_timer()
                    p.dirty = False
                cur = p
                p.boundary = False
                self._resume(p, ex)
            if len(ex.points) < len(prefix):
                raise ScheduleError(
                    f'replay diverged: {len(prefix)} choices recorded, '
                    f'{len(ex.points)} decision points met')
            for p in self.procs:
                p.pull()
                if p.status == 'fs' or p.in_flight:
                    ex.stuck.append(p.pid)
        finally:
            self.active = False
            self.jail.on_sched = None
            self.jail.on_done = None
            self._shutdown()
        return ex

    def _shutdown(self) -> None:
        # let parked threads run out (scheduling is off: they run freely, one
        # at a time), then stop them
        for p in self.procs:
            guard = 0
            while p.status == 'fs' and guard < 100000:
                guard += 1
                p.status = 'running'
                p.sem.release()
                self.main.acquire()
            p.stop = True
            p.sem.release()
        for p in self.procs:
            if p.thread is not None:
                p.thread.join(timeout=10)


def explore(run, bound: int, *, prefixes=None, on_exec=None,
            max_execs: int | None = None, lock_bonus: int = 0):
    """Enumerate every schedule with at most ``bound`` preemptions, plus at
    most ``lock_bonus`` further preemptions that are taken at lock-file
    operations (where the interesting windows of a lock protocol open).
    ``run(prefix)`` performs one execution and returns (Execution, payload).
    Depth-first over deviation prefixes; returns statistics.  ``prefixes``
    restricts the search to the subtrees below the given prefixes (used to
    spread the first level over worker processes)."""
    stats = {'executions': 0, 'max_points': 0, 'capped': False,
             'by_preemptions': {}}
    stack = [list(p) for p in (prefixes if prefixes is not None else [[]])]
    while stack:
        prefix = stack.pop()
        if max_execs is not None and stats['executions'] >= max_execs:
            stats['capped'] = True
            break
        ex, payload = run(prefix)
        stats['executions'] += 1
        stats['max_points'] = max(stats['max_points'], len(ex.points))
        used = ex.preemptions_before(len(ex.points))
        stats['by_preemptions'][used] = \
            stats['by_preemptions'].get(used, 0) + 1
        if on_exec is not None:
            on_exec(prefix, ex, payload)
        for i in range(len(prefix), len(ex.points)):
            pt = ex.points[i]
            cost = ex.preemptions_before(i)
            lockc = ex.lock_preemptions_before(i)
            if pt.cur_enabled:
                cost += 1
                if pt.lockp:
                    lockc += 1
            # preemptions at lock points are charged to the bonus first
            if cost - min(lockc, lock_bonus) > bound:
                continue
            for alt in range(1, pt.n):
                stack.append(ex.choices[:i] + [alt])
    return stats


def children(ex: Execution, prefix, bound: int, lock_bonus: int = 0):
    """The deviation prefixes directly below one execution."""
    out = []
    for i in range(len(prefix), len(ex.points)):
        pt = ex.points[i]
        cost = ex.preemptions_before(i)
        lockc = ex.lock_preemptions_before(i)
        if pt.cur_enabled:
            cost += 1
            if pt.lockp:
                lockc += 1
        if cost - min(lockc, lock_bonus) > bound:
            continue
        for alt in range(1, pt.n):
            out.append(ex.choices[:i] + [alt])
    return out
