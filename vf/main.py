"""./check entry point."""
from __future__ import annotations

import argparse
import importlib
import json
import os
import sys
import time


def main() -> int:
    ap = argparse.ArgumentParser()
    ap.add_argument('prop')
    ap.add_argument('--tier', default=os.environ.get('VERIF_TIER', 'quick'),
                    choices=['quick', 'thorough'])
    ap.add_argument('--replay')
    ap.add_argument('--jobs', type=int, default=None)
    ap.add_argument('--progress', action='store_true')
    ap.add_argument('--opt', action='append', default=[],
                    help='check-specific key=value (development only)')
    a = ap.parse_args()
    seed = int(os.environ.get('VERIF_SEED', '0') or 0)
    mod = importlib.import_module('vf.checks.' + a.prop.lower())
    import pymap
    src = os.path.dirname(os.path.dirname(os.path.abspath(pymap.__file__)))
    print(f'# check {a.prop} tier={a.tier} seed={seed} pymap={src}',
          flush=True)
    opts = dict(o.split('=', 1) for o in a.opt)
    if a.replay:
        with open(a.replay) as f:
            from .report import unjson
            rec = unjson(json.load(f))
        return mod.replay(rec)
    t0 = time.perf_counter()
    try:
        rc = mod.run(tier=a.tier, seed=seed, jobs=a.jobs,
                     progress=a.progress, opts=opts)
    except Exception:
        import traceback
        traceback.print_exc()
        print('HARNESS-ERROR (exit 2): the check itself failed; '
              'no verdict', flush=True)
        return 2
    print(f'# done rc={rc} wall={time.perf_counter() - t0:.1f}s', flush=True)
    return rc


if __name__ == '__main__':
    sys.exit(main())
