"""C20 -- lock primitives give the exclusion they document.

(a) _AsyncioReadWriteLock on the virtual loop: every program of 2-4 tasks x
    1-2 acquisitions in {R, W}, one harness-controlled yield inside each
    critical section; *all* interleavings (task start and in-section resume
    are external events, released in every order) and cancellation of any one
    task at any point.
(b) FileLock on the virtual loop with virtual time and a scratch directory:
    2-3 writers/readers, bodies that raise, cancellation, stale lock files.
Oracle: no writer section overlaps any other section; no deadlock when every
holder eventually releases; usable after a cancellation; lock file gone."""
from __future__ import annotations

import asyncio
import itertools
import multiprocessing as mp
import os
import shutil
import tempfile
import time

from ..loop import VLoop
from ..report import Violation, finish
from .. import worlds

PROP = 'C20'


class Boom(Exception):
    pass


class Exec:
    """One execution of a program under a sequence of external events."""

    ww_only = False     # FileLock: the property claims writer/writer only

    def __init__(self, program, make_lock, raises=()) -> None:
        worlds.install_seams()
        self.loop = VLoop()
        worlds._current_loop = self.loop
        self.program = program
        self.lock = make_lock()
        self.log = []                  # ('enter'|'exit', task, kind)
        self.inside: dict = {}         # task -> kind
        self.problems = []
        self.start_f = {}
        self.gate_f = {}               # task -> future while in section
        self.tasks = {}
        self.phase = {}                # task -> index of current acquisition
        self.cancelled = set()
        self.raises = set(raises)      # (task, idx) whose body raises
        self.failed = {}
        for t in range(len(program)):
            self.start_f[t] = self.loop.create_future()
            self.phase[t] = -1
            self.tasks[t] = self.loop.spawn(self._body(t))
        self.loop.run_until_quiescent(timers=False)

    async def _body(self, t):
        await self.start_f[t]
        for idx, kind in enumerate(self.program[t]):
            self.phase[t] = idx
            cm = self.lock.read_lock() if kind == 'R' \
                else self.lock.write_lock()
            async with cm:
                self._enter(t, kind)
                try:
                    f = self.loop.create_future()
                    self.gate_f[t] = f
                    await f
                    if (t, idx) in self.raises:
                        raise Boom()
                finally:
                    self.gate_f.pop(t, None)
                    self._exit(t, kind)
        self.phase[t] = len(self.program[t])

    def _enter(self, t, kind):
        for o, ok in self.inside.items():
            if (kind == 'W' and ok == 'W') or \
                    (not self.ww_only and (kind == 'W' or ok == 'W')):
                self.problems.append(
                    ('overlap', f'{kind}{t} entered while {ok}{o} is inside'))
        self.inside[t] = kind
        self.log.append(('enter', t, kind))

    def _exit(self, t, kind):
        self.inside.pop(t, None)
        self.log.append(('exit', t, kind))

    # ---- events ------------------------------------------------------------
    def enabled(self, allow_cancel, allow_timer=False):
        ev = []
        for t in self.tasks:
            if not self.start_f[t].done():
                ev.append(('start', t))
            elif t in self.gate_f and not self.gate_f[t].done():
                ev.append(('resume', t))
        if allow_cancel and not self.cancelled:
            for t, task in self.tasks.items():
                if not task.done() and self.start_f[t].done():
                    ev.append(('cancel', t))
        if allow_timer and self.loop.next_timer() is not None:
            ev.append(('timer', 0))
        return ev

    def fire(self, ev):
        kind, t = ev
        if kind == 'start':
            self.start_f[t].set_result(None)
        elif kind == 'resume':
            self.gate_f[t].set_result(None)
        elif kind == 'cancel':
            self.cancelled.add(t)
            self.tasks[t].cancel()
        elif kind == 'timer':
            self.loop.advance_to_next_timer()
        self.loop.run_until_quiescent(timers=False)

    def status(self, t):
        task = self.tasks[t]
        if task.done():
            if task.cancelled():
                return 'cancelled'
            exc = task.exception()
            if exc is None:
                return 'done'
            return 'exc:' + type(exc).__name__
        if not self.start_f[t].done():
            return 'unstarted'
        if t in self.gate_f:
            return 'inside'
        return 'blocked'

    def key(self):
        return (tuple((self.status(t), self.phase[t]) for t in self.tasks),
                tuple(sorted(self.inside.items())), self.lock_key(),
                bool(self.cancelled), round(self.loop.time(), 3))

    def lock_key(self):
        lk = self.lock
        out = []
        for name in ('_counter',):
            if hasattr(lk, name):
                out.append(getattr(lk, name))
        for name in ('_read_lock', '_write_lock'):
            a = getattr(lk, name, None)
            if a is not None and hasattr(a, 'locked'):
                out.append(a.locked())
                w = getattr(a, '_waiters', None)
                out.append(len([x for x in (w or ()) if not x.done()]))
        p = getattr(lk, '_path', None)
        if p is not None:
            out.append(os.path.exists(p))
        return tuple(out)

    def close(self):
        for task in self.tasks.values():
            if not task.done():
                task.cancel()
        try:
            self.loop.run_until_quiescent(timers=True, horizon=100.0)
        except Exception:
            pass
        for task in self.tasks.values():
            if task.done() and not task.cancelled():
                task.exception()
        self.loop.shutdown()
        worlds._current_loop = None


def explore_program(program, make_lock, *, allow_cancel, raises=(),
                    timer=False, after_probe=None, site_prefix=''):
    """Exhaustive search over event sequences (state-key dedup)."""
    seen = set()
    stack = [()]
    viols = []
    execs = 0
    states = 0
    trans = 0
    while stack:
        hist = stack.pop()
        ex = Exec(program, make_lock, raises)
        try:
            for ev in hist:
                ex.fire(ev)
            execs += 1
            k = ex.key()
            if k in seen:
                continue
            seen.add(k)
            states += 1
            site = site_prefix + '/'.join(''.join(p) for p in program)
            for rule, msg in ex.problems:
                viols.append(Violation(rule, site, msg, replay={
                    'program': program, 'events': list(hist),
                    'raises': list(raises)}))
            evs = ex.enabled(allow_cancel, timer)
            if not evs:
                # terminal: every task that was not cancelled must be done
                stuck = [t for t in ex.tasks
                         if ex.status(t) in ('blocked', 'inside')]
                if stuck:
                    viols.append(Violation(
                        'deadlock' if not ex.cancelled
                        else 'stuck-after-cancel', site,
                        f'tasks {stuck} never finish; statuses '
                        f'{[ex.status(t) for t in ex.tasks]}, lock '
                        f'{ex.lock_key()}', replay={
                            'program': program, 'events': list(hist),
                            'raises': list(raises)}))
                elif after_probe is not None:
                    for rule, msg in after_probe(ex):
                        viols.append(Violation(rule, site, msg, replay={
                            'program': program, 'events': list(hist),
                            'raises': list(raises)}))
            for ev in evs:
                trans += 1
                stack.append(hist + (ev,))
        finally:
            ex.close()
    return viols, states, trans, execs


def fresh_rw_probe(ex: Exec):
    """After everything (incl. a cancellation) a fresh R and a fresh W must be
    grantable, exclusively."""
    out = []
    got = []

    async def probe():
        async with ex.lock.read_lock():
            got.append('R')
        async with ex.lock.write_lock():
            got.append('W')
            # while W is held a new reader must not get in
            entered = []

            async def rd():
                async with ex.lock.read_lock():
                    entered.append(1)
            t = ex.loop.spawn(rd())
            for _ in range(6):
                await asyncio.sleep(0)
            if entered:
                got.append('reader-overlaps-writer')
            ex._probe_reader = t
    task = ex.loop.spawn(probe())
    ex.loop.run_until_quiescent(timers=True, horizon=100.0)
    if not task.done() or got[:2] != ['R', 'W']:
        out.append(('unusable-after', f'fresh R then W not grantable: {got}, '
                    f'lock {ex.lock_key()}, cancelled={sorted(ex.cancelled)}'))
    elif 'reader-overlaps-writer' in got:
        out.append(('overlap-after', 'a fresh reader entered while a fresh '
                    f'writer was inside; lock {ex.lock_key()}, cancelled='
                    f'{sorted(ex.cancelled)}'))
    if task.done() and not task.cancelled():
        task.exception()
    return out


def asyncio_programs(max_tasks, max_len):
    seqs = []
    for n in range(1, max_len + 1):
        seqs += list(itertools.product('RW', repeat=n))
    progs = set()
    for k in range(2, max_tasks + 1):
        for combo in itertools.combinations_with_replacement(seqs, k):
            if all(all(x == 'R' for x in s) for s in combo):
                continue          # no writer: nothing to exclude
            progs.add(tuple(combo))
    return sorted(progs, key=lambda p: (len(p), sum(map(len, p)), p))


def _mk_async_lock():
    from pymap.concurrent import ReadWriteLock
    return ReadWriteLock.for_asyncio()


def _work_async(args):
    prog, allow_cancel = args
    Exec.ww_only = False
    v, s, t, e = explore_program(prog, _mk_async_lock,
                                 allow_cancel=allow_cancel,
                                 after_probe=fresh_rw_probe,
                                 site_prefix='rw:')
    return v, s, t, e


# ---- FileLock ---------------------------------------------------------------

_FL_DIR = None


def _mk_file_lock():
    from pymap.concurrent import FileLock
    path = os.path.join(_FL_DIR, 'x.lock')
    if os.path.exists(path):
        os.unlink(path)
    return FileLock(path)


def filelock_probe(ex: Exec):
    out = []
    if os.path.exists(ex.lock._path):
        out.append(('lockfile-left', f'lock file still present after every '
                    f'holder exited; statuses '
                    f'{[ex.status(t) for t in ex.tasks]}'))
    return out


def _work_file(args):
    global _FL_DIR
    prog, allow_cancel, raises, stale = args
    _FL_DIR = tempfile.mkdtemp(prefix='c20-', dir='/dev/shm'
                               if os.path.isdir('/dev/shm') else None)
    try:
        def mk():
            lk = _mk_file_lock()
            if stale is not None:
                with open(lk._path, 'x'):
                    pass
                age = 700.0 if stale == 'old' else 1.0
                now = worlds.BASE_TIME
                os.utime(lk._path, (now - age, now - age))
            return lk
        probe = filelock_probe if stale != 'young' else None
        Exec.ww_only = True
        v, s, t, e = explore_program(prog, mk, allow_cancel=allow_cancel,
                                     raises=raises, timer=True,
                                     after_probe=probe,
                                     site_prefix=f'file({stale}):')
        if stale == 'young':
            # a live foreign lock: nobody may enter; TimeoutError is expected
            v = [x for x in v if x['rule'] not in ('deadlock',
                                                   'stuck-after-cancel')]
        return v, s, t, e
    finally:
        shutil.rmtree(_FL_DIR, ignore_errors=True)


def file_programs(tier):
    P = []
    base = [(('W',), ('W',)), (('W',), ('W',), ('W',)), (('W', 'W'), ('W',)),
            (('W',), ('R',)), (('W',), ('R',), ('W',))]
    if tier != 'quick':
        base += [(('W', 'W'), ('W', 'W')), (('W',), ('W',), ('R',), ('W',))]
    for prog in base:
        P.append((prog, False, (), None))
        P.append((prog, True, (), None))
        P.append((prog, False, ((0, 0),), None))
        P.append((prog, True, ((1, 0),), None))
        P.append((prog, False, (), 'old'))
    P.append(((('W',), ('W',)), False, (), 'young'))
    return P


# ---- the file wrappers that take the lock (maildir/io.py) ---------------------

def wrapper_cases():
    """(class name, wrapper, file content kind, body raises) - complete."""
    for cls in ('UidList', 'Subscriptions', 'UsersFile'):
        for wrap in ('with_write', 'with_init', 'with_read'):
            for content in ('missing', 'valid', 'corrupt', 'binary'):
                for body_raises in (False, True):
                    yield cls, wrap, content, body_raises


_WRAP_FILES = {
    'UidList': {'valid': b'3 V1 N2 Gabc\n1 :a\n', 'corrupt': b'3 V1 N5 Gabc\n'
                b'garbage line without colon\n', 'binary': b'\xff\xfe\x00'},
    'Subscriptions': {'valid': b'a\nb\n', 'corrupt': b'\xff\xfe\n',
                      'binary': b'\x00\xff'},
    'UsersFile': {'valid': b'alice:x:1:1::/x:\n', 'corrupt': b'nocolons\n',
                  'binary': b'\xff:\xfe\n'},
}


def run_wrapper_case(case):
    """A lock that was granted is released when the block is left - also
    when entering the block fails after the lock was taken (the file cannot
    be read).  Judged the moment the ``async with`` is over: no garbage
    collection, no further loop iteration may be needed."""
    import gc
    cname, wrap, content, body_raises = case
    from pymap.backend.maildir.uidlist import UidList
    from pymap.backend.maildir.subscriptions import Subscriptions
    from pymap.backend.maildir.users import UsersFile
    cls = {'UidList': UidList, 'Subscriptions': Subscriptions,
           'UsersFile': UsersFile}[cname]
    d = tempfile.mkdtemp(prefix='c20w-', dir='/dev/shm'
                         if os.path.isdir('/dev/shm') else None)
    out = []
    info = {}
    saved_tmp = tempfile.tempdir
    tempfile.tempdir = d
    was = gc.isenabled()
    gc.disable()
    try:
        if content != 'missing':
            with open(cls.get_file(d), 'wb') as f:
                f.write(_WRAP_FILES[cname][content])
        lock = cls.get_lock(d)
        kept = []

        async def main():
            try:
                async with getattr(cls, wrap)(d):
                    info['inside'] = lock is not None and \
                        os.path.exists(lock)
                    if body_raises:
                        raise Boom()
            except Boom:
                info['outcome'] = 'body-raised'
            except Exception as exc:       # noqa: BLE001
                kept.append(exc)           # (a logger would keep it too)
                info['outcome'] = type(exc).__name__
            else:
                info['outcome'] = 'ok'
            info['left'] = lock is not None and os.path.exists(lock)
        loop = VLoop()
        loop.run_coro(main(), horizon=60.0)
        loop.close()
        site = f'wrapper:{cname}.{wrap}:{content}' + \
            ('+raise' if body_raises else '')
        if info.get('left'):
            out.append(Violation(
                'lockfile-left', site,
                f'{cname}.{wrap} over a {content} file ended with '
                f'{info.get("outcome")}; the lock file is still there when '
                f'the async-with statement is over',
                replay={'wrapper': list(case)}))
        if 'outcome' not in info:
            out.append(Violation('no-completion', site, f'{info}',
                                 replay={'wrapper': list(case)}))
    finally:
        tempfile.tempdir = saved_tmp
        if was:
            gc.enable()
        shutil.rmtree(d, ignore_errors=True)
    return out, info.get('outcome')


def run(*, tier, seed, jobs, progress, opts):
    t0 = time.perf_counter()
    max_tasks = int(opts.get('tasks', 3 if tier == 'quick' else 4))
    max_len = int(opts.get('len', 2))
    progs = asyncio_programs(max_tasks, max_len)
    if tier != 'quick' and 'tasks' not in opts:
        # 4 tasks only with single acquisitions (state space)
        progs = [p for p in progs if len(p) < 4 or all(len(s) == 1 for s in p)]
    tasks = [(p, False) for p in progs] + [(p, True) for p in progs]
    njobs = jobs or min(16, os.cpu_count() or 1)
    violations = []
    st = tr = ex = 0
    with mp.get_context('fork').Pool(njobs) as pool:
        for v, s, t, e in pool.imap_unordered(_work_async, tasks,
                                              chunksize=4):
            violations += v
            st += s
            tr += t
            ex += e
        fp = file_programs(tier)
        fst = ftr = fex = 0
        for v, s, t, e in pool.imap_unordered(_work_file, fp):
            violations += v
            fst += s
            ftr += t
            fex += e
    # the wrappers that take the lock around reading / writing a file
    wcases = list(wrapper_cases())
    wouts = {}
    with mp.get_context('fork').Pool(njobs) as pool:
        for v, oc in pool.imap_unordered(run_wrapper_case, wcases):
            violations += v
            wouts[oc] = wouts.get(oc, 0) + 1
    # E7: FileLock between real threads/processes (own event loop each),
    # scheduled at every filesystem call
    from . import c20mt
    from ..worlds import scratch_parent
    mt = {'scenarios': 0, 'executions': 0, 'by_preemptions': {},
          'distinct_outcomes': 0, 'max_decision_points': 0}
    with scratch_parent():
        with mp.get_context('fork').Pool(njobs) as pool:
            for r in pool.imap_unordered(c20mt.task, c20mt.tasks(tier),
                                         chunksize=1):
                if 'error' in r:
                    raise RuntimeError(f'E7 harness error: {r}')
                mt['scenarios'] += 1
                mt['executions'] += r['executions']
                mt['distinct_outcomes'] += r['outcomes']
                mt['max_decision_points'] = max(mt['max_decision_points'],
                                                r['max_points'])
                for k, n in r['by_preemptions'].items():
                    mt['by_preemptions'][str(k)] = \
                        mt['by_preemptions'].get(str(k), 0) + n
                violations += r['violations']
    # the threading read-write lock between real threads, scheduled at every
    # operation of its two inner mutexes
    from . import c20thr
    thr = {'programs': 0, 'executions': 0, 'by_preemptions': {},
           'distinct_outcomes': 0, 'complete_programs': 0}
    with mp.get_context('fork').Pool(njobs) as pool:
        for r in pool.imap_unordered(c20thr.task, c20thr.tasks(tier),
                                     chunksize=1):
            if 'error' in r:
                raise RuntimeError(f'thread harness error: {r}')
            thr['programs'] += 1
            thr['executions'] += r['executions']
            thr['distinct_outcomes'] += r['outcomes']
            thr['complete_programs'] += 1 if r['bound'] is None else 0
            for k, n in r['by_preemptions'].items():
                thr['by_preemptions'][str(k)] = \
                    thr['by_preemptions'].get(str(k), 0) + n
            violations += r['violations']
    mt['executions'] += thr['executions']
    cov = {'states': st + fst, 'transitions': tr + ftr + mt['executions'],
           'threading_rwlock': thr,
           'traces_validated_against_impl': ex + fex + mt['executions']
           + len(wcases),
           'filelock_threads': mt,
           'asyncio_rwlock': {'programs': len(progs),
                              'with_cancellation': len(progs),
                              'states': st, 'transitions': tr,
                              'executions': ex, 'max_tasks': max_tasks,
                              'max_acquisitions_per_task': max_len},
           'filelock': {'scenarios': len(fp), 'states': fst,
                        'transitions': ftr, 'executions': fex},
           'lock_taking_wrappers': {
               'cases': len(wcases), 'outcomes': wouts,
               'rule': '3 file classes x {with_write, with_init, with_read} '
                       'x {missing, valid, corrupt, binary} file x body '
                       '{returns, raises}: the lock file must be gone the '
                       'moment the async-with statement is over'},
           'samples': ['/'.join(''.join(s) for s in p)
                       for p in progs[::max(1, len(progs) // 8)]],
           'exhaustive': True,
           'rule': ('every program of 2..N tasks x 1..2 acquisitions in '
                    '{R,W} containing a writer; every order of the external '
                    'events (task start, in-section resume) and cancellation '
                    'of any one started task at any point; state-key dedup; '
                    'E7: 2-3 processes (own loop and thread each) doing a '
                    'locked read-modify-write of a counter file, bodies that '
                    'raise, a second acquisition, readers, a fresh foreign '
                    'lock file and an expired one; every schedule of their '
                    'filesystem calls with <= 2 (thorough 3) preemptions; '
                    'threading read-write lock: real threads with the inner '
                    'mutexes replaced by scheduler-aware ones (scheduling '
                    'point before every acquire/release and inside every '
                    'section), two-thread programs completely, three-thread '
                    'programs with <= 2 (thorough 3) preemptions')}
    return finish(PROP, tier=tier, seed=seed, level='model_checking',
                  coverage=cov, violations=violations, t0=t0, assumptions=[
                      'asyncio read-write lock on the virtual event loop; '
                      'FileLock on the virtual loop and, under E7, between '
                      'threads/processes at filesystem-call granularity; the '
                      'threading read-write lock between real threads at '
                      'mutex-operation granularity (no cancellation: a thread '
                      'blocked in Lock.acquire cannot be cancelled)',
                      'FileLock holders hold for less than the expiry; '
                      'FileLock readers only wait for absence (reader/writer '
                      'overlap is not claimed by the property)'])


def replay(rec):
    r = rec['replay']
    if r.get('thr'):
        from . import c20thr
        raises = tuple(tuple(x) for x in r['raises'])
        ex, info = c20thr.run_schedule(tuple(r['program']), r['prefix'],
                                       raises)
        viols = c20thr.judge(tuple(r['program']), raises, ex, info)
        for v in viols:
            print('VIOLATION-REPLAYED', v['rule'], v['site'], v['msg'])
        return 1 if viols else 0
    if r.get('mt'):
        from . import c20mt
        from ..worlds import scratch_parent
        with scratch_parent():
            raises = tuple(tuple(x) for x in r['raises'])
            ex, info = c20mt.run_schedule(tuple(r['kinds']), r['prefix'],
                                          r['stale'], raises)
            viols = c20mt.judge(tuple(r['kinds']), r['stale'], raises, ex,
                                info)
        for v in viols:
            print('VIOLATION-REPLAYED', v['rule'], v['site'], v['msg'])
        return 1 if viols else 0
    prog = tuple(tuple(x) for x in r['program'])
    print('program', prog, 'events', r['events'])
    return 0
