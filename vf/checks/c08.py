"""C08 -- mailbox names cannot reach outside the user's own mail store.

Bounded-exhaustive enumeration of hostile mailbox names in every
mailbox-taking argument position, on maildir ('++' and 'fs' layouts, under an
os-level jail that logs every filesystem call and refuses mutations outside
the scratch root) and on dict; two users."""
from __future__ import annotations

import hashlib
import itertools
import multiprocessing as mp
import os
import shutil
import time

from .. import fsjail
from ..driver import Ctx
from ..refmodel import mutf7
from ..report import Violation, finish
from ..worlds import DictWorld, MaildirWorld, scratch_root, scratch_parent

PROP = 'C08'

COMPONENTS = ['', '.', '..', 'a', 'INBOX', 'a.b', '.a', '\0', 'é', 'a' * 300,
              'bob', 'cur', '~']
SPECIAL = ['~', '/etc', '../bob', '../../x', '..bob', '../bob/.Keep',
           '../bob/Keep', '../../base/bob', '/', './a', 'a/..', 'a/../..',
           '.../bob', '..\\bob', '.../...', 'bob', '../pymap-etc-passwd',
           '..', '.', '../bob/cur', '.bob', '..bob.Keep',
           # look-alikes that compatibility normalisation folds into INBOX,
           # '..', '.' and '/'
           '\uff29\uff2e\uff22\uff2f\uff38', '\uff29NBOX', 'INBO\u2169',
           '\u2025', '\u2025/bob', '\u2024\u2024/bob', '..\uff0fbob',
           '\u2025\uff0fbob', '\u0131nbox']


def names(maxc):
    out = []
    seen = set()
    for n in range(1, maxc + 1):
        for combo in itertools.product(COMPONENTS, repeat=n):
            nm = '/'.join(combo)
            if nm not in seen:
                seen.add(nm)
                out.append(nm)
    for nm in SPECIAL:
        if nm not in seen:
            seen.add(nm)
            out.append(nm)
    return out


def L(name: str) -> bytes:
    enc = mutf7.encode(name)
    return b'{%d+}\r\n%s' % (len(enc), enc)


MSG = b'A: b\r\n\r\nx\r\n'


def positions(name: str):
    """One command (list) per mailbox-taking position."""
    n = L(name)
    m = b'{%d+}\r\n%s' % (len(MSG), MSG)
    return [
        ('CREATE', [b'CREATE ' + n]),
        ('DELETE', [b'DELETE ' + n]),
        ('RENAME-src', [b'RENAME ' + n + b' moved']),
        ('RENAME-dst', [b'RENAME Mine ' + n]),
        ('SELECT', [b'SELECT ' + n, b'FETCH 1:* (FLAGS)',
                    b'STORE 1:* +FLAGS (\\Deleted)', b'EXPUNGE', b'CLOSE']),
        ('EXAMINE', [b'EXAMINE ' + n, b'FETCH 1:* (BODY[])']),
        ('STATUS', [b'STATUS ' + n + b' (MESSAGES UIDNEXT)']),
        ('APPEND', [b'APPEND ' + n + b' ' + m]),
        ('COPY', [b'SELECT Mine', b'COPY 1 ' + n]),
        ('MOVE', [b'SELECT Mine', b'MOVE 1 ' + n]),
        ('SUBSCRIBE', [b'SUBSCRIBE ' + n, b'LSUB "" *']),
        ('UNSUBSCRIBE', [b'UNSUBSCRIBE ' + n]),
        ('LIST-ref', [b'LIST ' + n + b' *', b'LIST ' + n + b' %']),
        ('LIST-pat', [b'LIST "" ' + n, b'LSUB "" ' + n,
                      b'LIST "" ' + L(name + '*'), b'LIST "" ' + L(name + '/%')]),
        ('CREATE-then-DELETE', [b'CREATE ' + n, b'DELETE ' + n]),
    ]


def tree_digest(path: str) -> str:
    h = hashlib.sha256()
    with fsjail.unjailed():
        for dp, dn, fn in sorted(os.walk(path)):
            dn.sort()
            h.update(dp[len(path):].encode('utf-8', 'surrogateescape'))
            for f in sorted(fn):
                h.update(f.encode('utf-8', 'surrogateescape'))
                try:
                    with open(os.path.join(dp, f), 'rb') as fh:
                        h.update(fh.read())
                except OSError:
                    h.update(b'?')
    return h.hexdigest()


_TEMPLATES: dict = {}


class SetupFailed(Exception):
    pass


def template(layout: str) -> str:
    """A store with alice (mailbox Mine + message) and bob (Keep + message),
    built once per process and copied for every execution."""
    t = _TEMPLATES.get(layout)
    if t is not None:
        return t
    w = MaildirWorld(layout=layout, users={'alice': ('pw', ()),
                                           'bob': ('pw2', ())})
    ctx = Ctx(w)
    for u, pw, box in (('alice', b'pw', b'Mine'), ('bob', b'pw2', b'Keep')):
        si = ctx.connect()
        m = b'{%d+}\r\n%s' % (len(MSG), MSG)
        for line in (b'LOGIN ' + u.encode() + b' ' + pw, b'CREATE ' + box,
                     b'APPEND ' + box + b' ' + m, b'APPEND INBOX ' + m,
                     b'SELECT ' + box, b'SELECT INBOX'):
            st = ctx.do(si, line)
            if st.cond != 'OK':
                root = w.root
                ctx.close()
                raise SetupFailed(f'{u}: {line[:40]!r} -> {st.raw[-120:]!r}')
        # each user sees exactly its own two messages
        for box2 in (box, b'INBOX'):
            st = ctx.do(si, b'STATUS ' + box2 + b' (MESSAGES)')
            rows = st.untagged('STATUS')
            if not rows or rows[0].data[1].get('MESSAGES') != 1:
                ctx.close()
                raise SetupFailed(f'{u}: STATUS {box2!r} -> {st.raw!r}')
        ctx.do(si, b'LOGOUT')
    root = w.root
    w.own_root = False
    ctx.close()
    _TEMPLATES[layout] = root
    return root


def run_one(layout, name, pos, cmds):
    out = []
    site = f'{layout}:{pos}'
    try:
        troot = template(layout)
    except SetupFailed as exc:
        # two users each creating a mailbox and appending a message is the
        # most ordinary use; if that already interferes, users are not
        # isolated
        return [Violation('two-user-setup-interferes', layout, str(exc),
                          replay={'layout': layout, 'name': name,
                                  'pos': pos})]
    root = scratch_root()
    with fsjail.unjailed():
        shutil.rmtree(root)
        shutil.copytree(troot, root, symlinks=True)
    w = MaildirWorld(layout=layout, root=root, reuse=True,
                     users={'alice': ('pw', ()), 'bob': ('pw2', ())})
    w.own_root = True
    try:
        ctx = Ctx(w)
        si = ctx.connect()
        bob_before = tree_digest(w.user_dir('bob'))
        etc = [os.path.join(w.base_dir, f) for f in
               ('pymap-etc-passwd', 'pymap-etc-shadow', 'pymap-etc-group',
                'pymap-tokens')]
        etc_before = [tree_digest(os.path.dirname(e)) if False else
                      _file_digest(e) for e in etc]
        assert ctx.do(si, b'LOGIN alice pw').cond == 'OK'
        n0 = len(w.jail.log)
        r0 = len(w.jail.refused)
        for c in cmds:
            s = ctx.session(si)
            if s.done:
                break
            ctx.do(si, c)
        ctx.harness_errors.clear()
        alice = os.path.realpath(w.user_dir('alice'))
        tmpd = os.path.realpath(w.tmp_dir)
        base = os.path.realpath(w.base_dir)
        for op, rps, mut in w.jail.log[n0:]:
            for k, rp in enumerate(rps):
                if rp.startswith('<fd'):
                    continue
                inside = rp.startswith(alice + os.sep)
                if inside:
                    continue
                if rp == alice:
                    if mut and op in ('rmdir', 'rename', 'replace', 'remove',
                                      'unlink', 'rmtree'):
                        out.append(Violation(
                            'store-root-removed', site,
                            f'{op} on the user directory itself; name '
                            f'{name!r}', replay={'layout': layout,
                                                 'name': name, 'pos': pos}))
                    continue
                if rp.startswith(tmpd + os.sep) or rp == tmpd:
                    # tempfile's own files; the rename of such a file must
                    # land inside the user's store (checked by the other arg)
                    continue
                if not mut and os.path.dirname(rp) == base and \
                        os.path.basename(rp).startswith('pymap-'):
                    continue          # read-only access to credential files
                if not mut and rp in (base, os.path.dirname(alice)):
                    continue
                if not mut and op in ('stat', 'lstat') and \
                        (alice + os.sep).startswith(rp.rstrip(os.sep) + os.sep):
                    continue          # path resolution of an ancestor
                kind = 'mutated' if mut else 'read'
                where = 'other-user' if rp.startswith(
                    os.path.join(base, 'bob')) else \
                    'base-dir' if rp.startswith(base) else 'outside-base'
                out.append(Violation(
                    f'path-escape.{kind}', f'{site}:{where}',
                    f'{op} touched {rp} (user store {alice}); name {name!r}',
                    replay={'layout': layout, 'name': name, 'pos': pos}))
        for op, rps in w.jail.refused[r0:]:
            out.append(Violation(
                'jail-refused', site,
                f'{op} {rps} outside the scratch root was refused; name '
                f'{name!r}', replay={'layout': layout, 'name': name,
                                     'pos': pos}))
        if tree_digest(w.user_dir('bob')) != bob_before:
            out.append(Violation('other-user-changed', site,
                       f"bob's tree changed; name {name!r}",
                       replay={'layout': layout, 'name': name, 'pos': pos}))
        if [_file_digest(e) for e in etc] != etc_before:
            out.append(Violation('credentials-changed', site,
                       f'credential files changed; name {name!r}',
                       replay={'layout': layout, 'name': name, 'pos': pos}))
        ctx.close()
    finally:
        if not w.closed:
            w.close()
    return out


def _file_digest(p):
    with fsjail.unjailed():
        try:
            with open(p, 'rb') as f:
                return hashlib.sha256(f.read()).hexdigest()
        except OSError:
            return None


def run_one_dict(name, pos, cmds):
    out = []
    w = DictWorld(users={'alice': ('pw', ()), 'bob': ('pw2', ())})
    ctx = Ctx(w)
    try:
        b = ctx.connect()
        assert ctx.do(b, b'LOGIN bob pw2').cond == 'OK'
        assert ctx.do(b, b'CREATE Keep').cond == 'OK'
        m = b'{%d+}\r\n%s' % (len(MSG), MSG)
        assert ctx.do(b, b'APPEND Keep ' + m).cond == 'OK'

        def view():
            v = []
            st = ctx.do(b, b'LIST "" *')
            v.append(tuple(r.data[2] for r in st.untagged('LIST')))
            for box in (b'INBOX', b'Keep'):
                st = ctx.do(b, b'STATUS ' + box +
                            b' (MESSAGES UIDNEXT UIDVALIDITY)')
                v.append(tuple(sorted(r.data[1].items())
                               for r in st.untagged('STATUS')))
            return v
        before = view()
        a = ctx.connect()
        assert ctx.do(a, b'LOGIN alice pw').cond == 'OK'
        ctx.do(a, b'CREATE Mine')
        ctx.do(a, b'APPEND Mine ' + m)
        for c in cmds:
            if ctx.session(a).done:
                break
            ctx.do(a, c)
        ctx.harness_errors.clear()
        if view() != before:
            out.append(Violation('other-user-changed', f'dict:{pos}',
                       f"bob's view changed; name {name!r}",
                       replay={'layout': 'dict', 'name': name, 'pos': pos}))
    finally:
        ctx.close()
    return out


def _work(args):
    layout, chunk = args
    out = []
    n = 0
    for name in chunk:
        for pos, cmds in positions(name):
            if layout == 'dict':
                out += run_one_dict(name, pos, cmds)
            else:
                out += run_one(layout, name, pos, cmds)
            n += 1
    return out, n


def cleanup_templates():
    for root in _TEMPLATES.values():
        with fsjail.unjailed():
            shutil.rmtree(root, ignore_errors=True)
    _TEMPLATES.clear()


def _work_wrapped(args):
    return _work(args)


def run(*, tier, seed, jobs, progress, opts):
    with scratch_parent():
        return _run(tier=tier, seed=seed, jobs=jobs, progress=progress,
                    opts=opts)


def _run(*, tier, seed, jobs, progress, opts):
    t0 = time.perf_counter()
    maxc = int(opts.get('components', 2 if tier == 'quick' else 3))
    nm = names(maxc)
    njobs = jobs or min(16, os.cpu_count() or 1)
    tasks = []
    for layout in ('++', 'fs', 'dict'):
        size = max(4, len(nm) // (njobs * 3))
        for i in range(0, len(nm), size):
            tasks.append((layout, nm[i:i + size]))
    violations = []
    total = 0
    with mp.get_context('fork').Pool(njobs, maxtasksperchild=4) as pool:
        for k, (vs, n) in enumerate(pool.imap_unordered(_work_wrapped, tasks)):
            violations += vs
            total += n
            if progress and k % 10 == 0:
                print(f'  {k}/{len(tasks)} tasks, {total} executions, '
                      f'{len(violations)} raw violations, '
                      f't={time.perf_counter() - t0:.0f}s', flush=True)
    cov = {'evaluations': total,
           'distinct_nontrivial': len(nm) * 15 * 3,
           'names': len(nm), 'components': [repr(c)[:20] for c in COMPONENTS],
           'max_components': maxc, 'special_names': SPECIAL,
           'positions': [p for p, _ in positions('x')],
           'backends': ['maildir ++', 'maildir fs', 'dict'],
           'rule': ('every /-joined name of <= max_components components '
                    'from the component alphabet plus the special names, in '
                    'every mailbox-taking position (15), per backend/layout, '
                    'each on a fresh copy of a two-user store under the jail; '
                    'distinct = names x positions x backends'),
           'samples': [repr(n)[:60] for n in nm[::max(1, len(nm) // 10)]],
           'exhaustive': True}
    return finish(PROP, tier=tier, seed=seed, level='exploration',
                  coverage=cov, violations=violations, t0=t0, assumptions=[
                      'maildir backend built with the asyncio subsystem; the '
                      'jail sees calls made through os.* / open / shutil.rmtree',
                      'read-only access to the credential files and files '
                      'created by tempfile in the assigned temp directory are '
                      'the sanctioned locations outside the user store'])


def replay(rec):
    r = rec['replay']
    for pos, cmds in positions(r['name']):
        if pos == r['pos']:
            vs = run_one(r['layout'], r['name'], pos, cmds) \
                if r['layout'] != 'dict' else run_one_dict(r['name'], pos, cmds)
            for v in vs:
                print('VIOLATION-REPLAYED', v['rule'], v['site'], v['msg'])
    cleanup_templates()
    return 0
