"""C07 -- every response is well-formed IMAP.  100 % of the bytes written in
this check's enumerations go through the independent strict response parser
(vf/respparse.py)."""
from __future__ import annotations

import itertools

from .. import enum_inputs as E
from . import c06

PROP = 'C07'

NAME_ALPHABET = ['a', '/', '"', '\\', '&', '-', '*', '%', ' ', '\n', '\r',
                 '\0', 'é', '日', '\U0001F600', '\x7f', '\t', '(', '{', ']']


def lit(b):
    return b'{%d+}\r\n%s' % (len(b), b)


def name_scripts(max_len):
    from ..refmodel import mutf7
    for n in range(1, max_len + 1):
        for combo in itertools.product(NAME_ALPHABET, repeat=n):
            name = ''.join(combo)
            enc = mutf7.encode(name)
            L = lit(enc)
            yield [b'n1 CREATE ' + L + b'\r\n',
                   b'n2 SUBSCRIBE ' + L + b'\r\n',
                   b'n3 LIST "" *\r\n', b'n4 LSUB "" *\r\n',
                   b'n5 STATUS ' + L + b' (MESSAGES UIDNEXT)\r\n',
                   b'n6 SELECT ' + L + b'\r\n',
                   b'n7 APPEND ' + L + b' ' + lit(b'A: b\r\n\r\nx') + b'\r\n',
                   b'n8 RENAME ' + L + b' ' + lit(enc + b'x') + b'\r\n',
                   b'n9 LIST "" %\r\n',
                   b'n10 DELETE ' + lit(enc + b'x') + b'\r\n',
                   b'n11 SELECT ' + lit(enc + b'-missing') + b'\r\n',
                   b'n12 STATUS ' + lit(enc + b'-missing') + b' (MESSAGES)\r\n',
                   b'n13 COPY 1 ' + lit(enc + b'-missing') + b'\r\n']


RAW_NAMES = [b'&2AA-', b'&3AA-', b'&2ADYAA-', b'a&2AA-b', b'&AAo-', b'&AA0ACg-',
             b'&AAA-', b'&ACI-', b'&AFw-', b'&AH8-', b'&ACIAXA-', b'&2D3eAA-',
             b'&3gDYPQ-', b'&AOkA6Q-', b'&,,8-', b'&AAoACg-']


def raw_name_scripts():
    """Mailbox names given in their wire encoding: encodings of lone
    surrogates, control characters, quote and backslash."""
    for enc in RAW_NAMES:
        L = lit(enc)
        yield [b'n1 CREATE ' + L + b'\r\n', b'n2 SUBSCRIBE ' + L + b'\r\n',
               b'n3 LIST "" *\r\n', b'n4 LSUB "" *\r\n',
               b'n5 STATUS ' + L + b' (MESSAGES UIDNEXT)\r\n',
               b'n6 SELECT ' + L + b'\r\n',
               b'n8 RENAME ' + L + b' ' + lit(enc + b'x') + b'\r\n',
               b'n9 LIST "" %\r\n', b'n10 LIST "" ' + L + b'\r\n']


# boundary INTERNALDATEs: first/last representable instants with offsets
# pointing both ways, and years that need zero padding
DATES = [b'01-Jan-0001 00:00:00 +0000', b'01-Jan-0001 00:00:00 +0100',
         b'01-Jan-0001 00:00:00 -0100', b'01-Jan-0001 12:00:00 +1400',
         b'31-Dec-9999 23:59:59 +0000', b'31-Dec-9999 23:59:59 -0100',
         b'31-Dec-9999 23:59:59 +0100', b'31-Dec-9999 12:00:00 -1200',
         b'01-Jan-0099 00:00:00 +0000', b'01-Jan-0999 00:00:00 +0000',
         b'01-Jan-1000 00:00:00 +0000', b' 1-Jan-2020 00:00:00 +0000',
         b'29-Feb-2000 23:59:60 +0000', b'01-Jan-1970 00:00:00 +0000',
         b'01-Jan-1969 23:59:59 -0000', b'19-Jan-2038 03:14:08 +0000',
         # zones outside the grammar that strptime('%z') accepts
         b'01-Jan-2020 00:00:00 +05:30', b'01-Jan-2020 00:00:00 +05:30:15',
         b'01-Jan-2020 00:00:00 +053015', b'01-Jan-2020 00:00:00 Z']


def date_scripts():
    for d in DATES:
        yield [b'd1 APPEND INBOX "' + d + b'" ' + lit(b'A: b\r\n\r\nx')
               + b'\r\n', b'd2 FETCH * (INTERNALDATE)\r\n',
               b'd3 FETCH * FAST\r\n', b'd4 UID FETCH 1:* ALL\r\n',
               b'd5 SEARCH ON 1-Jan-0001 BEFORE 31-Dec-9999\r\n',
               b'd6 SEARCH SINCE 1-Jan-0001\r\n']


CTE_BODIES = [
    (b'base64', b'@@@@not-b64\r\n'), (b'base64', b'QUJD\r\n'),
    (b'base64', b'QUJ\r\n'), (b'base64', b'====\r\n'), (b'base64', b''),
    (b'BASE64', b'QUJD'), (b'quoted-printable', b'a=ZZb=\r\n'),
    (b'quoted-printable', b'=\r\n='), (b'quoted-printable', b'caf=E9\r\n'),
    (b'7bit', b'\xff\xfe\r\n'), (b'8bit', b'\x00\r\n'), (b'binary', b'\x00\xff'),
    (b'x-uuencode', b'begin 644 x\r\n'), (b'', b'x'), (b'base64 ', b'QUJD'),
    (b'"base64"', b'QUJD'), (b'base64; x=y', b'QUJD'),
]


def cte_scripts():
    """Content-Transfer-Encoding values x bodies that do not decode, read
    back through the BINARY items (decoded on the fly while the response is
    written)."""
    for cte, body in CTE_BODIES:
        for ctype in (b'text/plain', b'application/octet-stream'):
            m = (b'Content-Type: ' + ctype + b'\r\nContent-Transfer-Encoding: '
                 + cte + b'\r\n\r\n' + body)
            yield [b'c1 APPEND INBOX ' + lit(m) + b'\r\n',
                   b'c2 FETCH * (BINARY.PEEK[] BINARY.SIZE[])\r\n',
                   b'c3 FETCH * (BINARY[1] BINARY.SIZE[1])\r\n',
                   b'c4 FETCH * (BINARY[]<0.2> BODYSTRUCTURE)\r\n']
            mp_ = (b'Content-Type: multipart/mixed; boundary=B\r\n\r\n--B\r\n'
                   + m + b'\r\n--B--\r\n')
            yield [b'c1 APPEND INBOX ' + lit(mp_) + b'\r\n',
                   b'c2 FETCH * (BINARY[1] BINARY.SIZE[1])\r\n',
                   b'c3 FETCH * (BINARY.PEEK[] BODYSTRUCTURE)\r\n']


FIELD_NAME_TAILS = ['', '\n', '\r', ' ', ':', '"', '\\', '\0', '\xe9', '(',
                    ')', '{', '\r\n', '\n\n', '\t']


def field_name_scripts():
    msg = b'Subject: s\r\nFrom: a@b\r\n\r\nbody\r\n'
    for a in FIELD_NAME_TAILS:
        for b_ in FIELD_NAME_TAILS:
            for name in {a + 'Subject' + b_, 'Sub' + a + b_ + 'ject'}:
                n = name.encode('latin1')
                if not n:
                    continue
                L = lit(n)
                yield [b'f1 APPEND INBOX ' + lit(msg) + b'\r\n',
                       b'f2 FETCH * BODY[HEADER.FIELDS (' + L + b')]\r\n',
                       b'f3 FETCH * BODY.PEEK[HEADER.FIELDS.NOT (From ' + L
                       + b')]\r\n',
                       b'f4 SEARCH HEADER ' + L + b' s\r\n']


HEADER_FIELDS = [b'Subject', b'From', b'To', b'Cc', b'Bcc', b'Sender',
                 b'Reply-To', b'Message-Id', b'In-Reply-To', b'Date',
                 b'Content-Type', b'Content-Disposition', b'Content-Id',
                 b'Content-Description', b'Content-Language',
                 b'Content-Location', b'Content-Transfer-Encoding',
                 b'Content-MD5']
HEADER_VALUES = [
    b'plain', b'', b' ', b'a\rb', b'a\r\n b', b'a\r\n\tb\r\n c', b'a\x00b',
    b'"quoted"', b'back\\slash', b'a"b', b'\xe9\xff', b'caf\xc3\xa9',
    b'=?utf-8?q?=0A?=', b'=?utf-8?q?trailing=0A?=', b'=?utf-8?b?AAEC?=',
    b'=?utf-8?q?=22=5C?=', b'=?bogus?q?x?=', b'x' * 63, b'x' * 64, b'x' * 65,
    b'x' * 5000, b'Name <a@b>', b'"a\\"b" <a@b>', b'a@b, c@d', b'group: a@b;',
    b'<>', b'(comment) a@b', b'"\xe9" <\xff@\xfe>', b'=?utf-8?q?=0D?= <a@b>',
    b'text/plain; name="a\\"b"', b'text/plain; name="a\rb"',
    b'text/plain; name*=utf-8\'\'%0A', b'multipart/mixed; boundary="b\\"q"',
    b'attachment; filename="a\nb"', b'attachment; filename=\xe9',
    b'text/plain; a=1; b="2"; c=\xe9', b'Mon, 1 Jan 2020 00:00:00 +0000',
    b'{5}', b'NIL', b')', b'(', b'a]b', b'~{3}',
    # an encoded word that decodes to a lone surrogate; a disposition with
    # a parameter that needs quoting
    b'=?utf-7?Q?+2AA-?= <a@b>', b'attachment; filename="x y"', b'inline',
]


def header_scripts():
    for f in HEADER_FIELDS:
        for v in HEADER_VALUES:
            msg = f + b': ' + v + b'\r\nX-Other: y\r\n\r\nbody\r\n'
            yield [b'h1 APPEND INBOX ' + lit(msg) + b'\r\n',
                   b'h2 FETCH * (ENVELOPE BODY BODYSTRUCTURE)\r\n',
                   b'h3 FETCH * (BODY[HEADER.FIELDS (' + f + b')] '
                   b'BODY[1.MIME] RFC822.HEADER)\r\n']
            # the same header inside a nested part
            nested = (b'Content-Type: multipart/mixed; boundary=B\r\n\r\n--B\r\n'
                      + f + b': ' + v + b'\r\n\r\ninner\r\n--B\r\n'
                      b'Content-Type: message/rfc822\r\n\r\n'
                      + f + b': ' + v + b'\r\n\r\ndeep\r\n--B--\r\n')
            yield [b'h1 APPEND INBOX ' + lit(nested) + b'\r\n',
                   b'h2 FETCH * (ENVELOPE BODY BODYSTRUCTURE)\r\n',
                   b'h3 FETCH * (BODY[1.MIME] BODY[2.HEADER] BODY[2.1] '
                   b'BODY[2.MIME] BINARY.SIZE[1])\r\n']


LEAVES = [b'Content-Type: text/plain\r\n\r\ntext\r\n',
          b'Content-Type: application/x-o\r\n\r\nother\r\n',
          # a part without header and body (two boundary lines in a row)
          b'']


def shapes(depth):
    """All part trees of depth <= ``depth``, fan-out <= 2."""
    if depth == 0:
        for leaf in LEAVES:
            yield leaf
        return
    subs = list(shapes(depth - 1))
    for leaf in LEAVES:
        yield leaf
    for s in subs:
        yield b'Content-Type: message/rfc822\r\n\r\n' + s
    for bnd, opener in ((b'B%d' % depth, None), (b'', b''),
                        (b'"q b"', b'q b')):
        tok = opener if opener is not None else bnd
        hdr = b'Content-Type: multipart/mixed' + \
            (b'; boundary=' + bnd if bnd else b'') + b'\r\n\r\n'
        yield hdr + b'--' + tok + b'--\r\n'                       # zero parts
        for a in subs:
            yield hdr + b'--' + tok + b'\r\n' + a + b'\r\n--' + tok + b'--\r\n'
            for b_ in subs[:6]:
                yield (hdr + b'--' + tok + b'\r\n' + a + b'\r\n--' + tok
                       + b'\r\n' + b_ + b'\r\n--' + tok + b'--\r\n')


EXTRA_SHAPES = [
    # boundary lines in a row: parts with neither header nor body
    b'Content-Type: multipart/mixed; boundary=b\r\n\r\n--b\r\n--b\r\n\r\nx\r\n--b--\r\n',
    b'Content-Type: multipart/mixed; boundary=b\r\n\r\n--b\r\n--b\r\n--b--\r\n',
    b'Content-Type: multipart/mixed; boundary=b\r\n\r\n--b\r\n--b--\r\n',
    b'Content-Type: multipart/mixed; boundary=b\r\n\r\n--b\r\n'
    b'Content-Type: message/rfc822\r\n\r\n--b--\r\n',
    b'Content-Type: multipart/mixed; boundary=b\r\n\r\n--b\r\n'
    b'Content-Type: text/plain\r\n--b--\r\n',
    b'Content-Type: message/rfc822\r\n\r\n',
    b'Content-Type: message/rfc822\r\n',
    b'Content-Type: text/plain',
]


def shape_scripts(depth):
    seen = set()
    for m in itertools.chain(shapes(depth), EXTRA_SHAPES):
        if m in seen:
            continue
        seen.add(m)
        yield [b's1 APPEND INBOX ' + lit(m) + b'\r\n',
               b's2 FETCH * (BODY BODYSTRUCTURE ENVELOPE)\r\n',
               b's3 FETCH * (BODY[1] BODY[1.1] BODY[2] BODY[1.MIME] '
               b'BODY[1.HEADER] BODY[1.TEXT] BINARY[1] BINARY.SIZE[1] '
               b'BODY[TEXT] BODY[]<0.10>)\r\n']


KEYWORDS = [b'kw', b'$Forwarded', b'a]b', b'a"b', b'\xe9', b'a\\b', b'NIL',
            b'{3}', b'a(b', b'k' * 300, b'*', b'%', b'\\Seen', b'\\Bogus']


def keyword_scripts():
    for k in KEYWORDS:
        yield [b'k1 APPEND INBOX (' + k + b') ' + lit(b'A: b\r\n\r\nx') +
               b'\r\n', b'k2 FETCH * (FLAGS)\r\n',
               b'k3 STORE * +FLAGS (' + k + b')\r\n',
               b'k4 SEARCH KEYWORD ' + k + b'\r\n', b'k5 SELECT INBOX\r\n']
    for idv in [b'("name" "x")', b'("a\\"b" "c\\\\d")',
                b'("k" ' + lit(b'v\nw') + b')', b'("k" "\xe9")', b'NIL']:
        yield [b'i1 ID ' + idv + b'\r\n']


def auth_scripts():
    """AUTHENTICATE exchanges whose continuation data is hostile (run
    before login)."""
    import base64
    ok = base64.b64encode(b'\0demouser\0demopass')
    conts = [b'a', b'*', b'', b'====', b'!!!', base64.b64encode(b'nonul'),
             base64.b64encode(b'\0a\0b'), base64.b64encode(b'\xff\0\xfe\0x'),
             ok[:-1], b' ' + ok, ok + b' x', b'{3+}', b'"q"', b'x' * 5000,
             base64.b64encode(b'a\0' + b'u' * 3000 + b'\0p')]
    for mech in (b'PLAIN', b'LOGIN', b'plain', b'BOGUS', b'CRAM-MD5', b'""'):
        for c in conts:
            yield [(b'x1 AUTHENTICATE ' + mech + b'\r\n',
                    (c + b'\r\n', c + b'\r\n')), b'x2 NOOP\r\n']
        for c in conts[:6]:
            # SASL-IR style initial response
            yield [b'x1 AUTHENTICATE ' + mech + b' ' + c + b'\r\n',
                   b'x2 NOOP\r\n']
    for u, pw in ((b'demouser', b'bad'), (b'"a\\"b"', b'"c"'),
                  (lit(b'\xe9'), lit(b'\xff')), (b'a', b'')):
        yield [b'x1 LOGIN ' + u + b' ' + pw + b'\r\n', b'x2 NOOP\r\n']


def families(tier):
    return [('names', list(name_scripts(2 if tier == 'quick' else 3))),
            ('headers', list(header_scripts())),
            ('shapes', list(shape_scripts(2 if tier == 'quick' else 3))),
            ('keywords', list(keyword_scripts())),
            ('raw-names', list(raw_name_scripts())),
            ('dates', list(date_scripts())),
            ('field-names', list(field_name_scripts())),
            ('cte', list(cte_scripts())),
            ('auth', list(auth_scripts()))]


def run(*, tier, seed, jobs, progress, opts):
    c06.PARSE_IS_VIOLATION = True
    # (the script families are part of C06's task list already)
    rc = c06.run(tier=tier, seed=seed, jobs=jobs, progress=progress, opts=opts,
                 prop=PROP, keep_rules={'malformed-response', 'torn-output',
                                        'stream-ends-inside-response'},
                 rule_text=(
                     'every byte written while enumerating (a) the whole C06 '
                     'corpus (everything echoed in BAD/NO texts and tags), (b) '
                     'mailbox names: all strings over a 20-character alphabet '
                     '(delimiter, quote, backslash, &, -, wildcards, space, '
                     'LF, CR, NUL, DEL, TAB, parentheses, brace, bracket, '
                     'Latin-1, CJK, astral) up to length 2 (thorough 3), '
                     'created via literal and read back through LIST, LSUB, '
                     'STATUS, SELECT, RENAME and error texts, (c) 18 header '
                     'fields x 42 hostile values at top level and inside '
                     'nested/message parts, read back through ENVELOPE, BODY, '
                     'BODYSTRUCTURE and header sections, (d) all MIME part '
                     'trees of depth <= 2 (thorough 3), fan-out <= 2, over '
                     'text/other/multipart (normal, missing, quoted boundary, '
                     'zero parts)/message-rfc822, (e) hostile keywords and ID '
                     'values; oracle: independent strict RFC 3501 response '
                     'parser (literal counts, quoted-string content, balanced '
                     'lists, ENVELOPE/BODYSTRUCTURE shapes, CRLF framing)'))
    return rc


def replay(rec):
    print(rec['replay'])
    return 0
