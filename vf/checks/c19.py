"""C19 -- ManageSieve: no script access before login; script store is a map.

BFS over ManageSieve command sequences on two connections and two users
against a dictionary model."""
from __future__ import annotations

import base64
import time

from ..explore import bfs, run_history
from ..report import Violation, finish
from ..worlds import DictWorld

PROP = 'C19'

VALID = b'require ["fileinto"];\r\nfileinto "Trash";\r\n'
VALID2 = b'keep;\r\n'
INVALID = b'this is not sieve {{{\r\n'
WEIRD = b'keep; # \xff\x00 bytes\r\n'
DATA = {'valid': VALID, 'valid2': VALID2, 'invalid': INVALID, 'empty': b'',
        'weird': WEIRD}
NAMES = ['a', 'b', 'é', 'q"t', '']


def q(name: str) -> bytes:
    b = name.encode('utf-8')
    return b'"' + b.replace(b'\\', b'\\\\').replace(b'"', b'\\"') + b'"'


def lit(data: bytes) -> bytes:
    return b'{%d+}\r\n%s' % (len(data), data)


def plain(user: bytes, pw: bytes, authz: bytes = b'') -> bytes:
    return base64.b64encode(authz + b'\0' + user + b'\0' + pw)


# a script above the 4096-byte literal limit whose text block consists of
# lines that are ManageSieve commands: refused or stored, it is one argument
BIG = (b'require ["reject"];\r\nreject text:\r\n' +
       b'DELETESCRIPT "a"\r\nPUTSCRIPT "planted" "keep;"\r\n'
       b'SETACTIVE "planted"\r\nRENAMESCRIPT "b" "moved"\r\nLOGOUT x\r\n' +
       b'NOOP "pad"\r\n' * 400 + b'.\r\n;\r\n')


def build_alphabet():
    A = []

    def E(c, name, line, **kw):
        A.append(dict(c=c, name=name, line=line, **kw))
    for c in (0, 1):
        users = [('alice', b'pw'), ('bob', b'pw2')] if c == 0 \
            else [('bob', b'pw2')]
        for u, pw in users:
            E(c, f'AUTH-{u}', b'AUTHENTICATE "PLAIN" "' +
              plain(u.encode(), pw) + b'"', auth=u)
        E(c, 'AUTH-bad', b'AUTHENTICATE "PLAIN" "' +
          plain(b'alice', b'wrong') + b'"', auth=None)
        if c == 0:
            E(c, 'AUTH-challenge-alice', b'AUTHENTICATE "PLAIN"', auth='alice',
              conts=[b'"' + plain(b'alice', b'pw') + b'"\r\n'])
            E(c, 'AUTH-challenge-cancel', b'AUTHENTICATE "PLAIN"', auth=None,
              conts=[b'"*"\r\n'])
            E(c, 'AUTH-bogus-mech', b'AUTHENTICATE "BOGUS"', auth=None)
        E(c, 'UNAUTHENTICATE', b'UNAUTHENTICATE', unauth=True)
        E(c, 'LOGOUT', b'LOGOUT', logout=True)
        if c == 0:
            E(c, 'NOOP', b'NOOP', any=True)
            E(c, 'NOOP-tag', b'NOOP "tag1"', any=True)
            E(c, 'CAPABILITY', b'CAPABILITY', any=True)
            E(c, 'STARTTLS', b'STARTTLS', starttls=True)
            E(c, 'BOGUS', b'BOGUSCMD', bad=True)
        names = NAMES if c == 0 else ['a']
        for n in names:
            datas = ['valid', 'valid2', 'invalid', 'empty', 'weird'] \
                if (c == 0 and n == 'a') else ['valid']
            for d in datas:
                E(c, f'PUT {n!r} {d}', b'PUTSCRIPT ' + q(n) + b' ' +
                  lit(DATA[d]), op='put', n=n, d=DATA[d], dk=d)
            E(c, f'GET {n!r}', b'GETSCRIPT ' + q(n), op='get', n=n)
            E(c, f'SETACTIVE {n!r}', b'SETACTIVE ' + q(n), op='setactive',
              n=n)
            E(c, f'DELETE {n!r}', b'DELETESCRIPT ' + q(n), op='delete', n=n)
        E(c, 'LIST', b'LISTSCRIPTS', op='list')
        if c == 0:
            for a, b in [('a', 'b'), ('b', 'a'), ('a', 'a'), ('a', 'é'),
                         ('zz', 'a'), ('a', 'q"t')]:
                E(c, f'RENAME {a!r} {b!r}', b'RENAMESCRIPT ' + q(a) + b' ' +
                  q(b), op='rename', n=a, m=b)
            E(c, 'HAVESPACE-small', b'HAVESPACE "a" 10', op='havespace')
            E(c, 'HAVESPACE-huge', b'HAVESPACE "a" 99999999999',
              op='havespace')
            E(c, 'CHECK-valid', b'CHECKSCRIPT ' + lit(VALID), op='check')
            E(c, 'CHECK-invalid', b'CHECKSCRIPT ' + lit(INVALID), op='check')
            E(c, 'PUT-big', b'PUTSCRIPT "b" ' + lit(BIG), op='put', n='b',
              d=BIG, dk='big')
            E(c, 'CHECK-big', b'CHECKSCRIPT ' + lit(BIG), op='check')
            E(c, 'PUT-literal-name', b'PUTSCRIPT ' + lit(b'a') + b' ' +
              lit(VALID2), op='put', n='a', d=VALID2, dk='valid2')
    return A


class SModel:
    def __init__(self) -> None:
        self.scripts = {'alice': {}, 'bob': {}}
        self.active = {'alice': None, 'bob': None}
        self.who = {0: None, 1: None}
        self.closed = {0: False, 1: False}
        self.tls_done = {0: False, 1: False}

    def key(self):
        return (tuple((u, tuple(sorted(s.items())), self.active[u])
                      for u, s in sorted(self.scripts.items())),
                tuple(sorted(self.who.items())),
                tuple(sorted(self.closed.items())))


class Model:
    name = 'c19'

    def __init__(self, segmented: bool = False, kind: str = 'dict') -> None:
        self.params = {'segmented': segmented, 'kind': kind}
        self.segmented = segmented
        # 'maildir': the backend whose store holds one script, named
        # 'active' (pymap.filter.SingleFilterSet over <user dir>/dovecot.sieve)
        self.kind = kind
        self._alpha = build_alphabet()
        if kind == 'maildir':
            extra = []
            for e in self._alpha:
                if e.get('n') == 'a' or e.get('m') == 'a':
                    # the same events for the one name this store knows
                    e2 = dict(e)
                    e2['name'] = e['name'].replace("'a'", "'active'")
                    e2['line'] = e['line'].replace(b'"a"', b'"active"') \
                        .replace(b'{1+}\r\na ', b'{6+}\r\nactive ')
                    if e2.get('n') == 'a':
                        e2['n'] = 'active'
                    if e2.get('m') == 'a':
                        e2['m'] = 'active'
                    extra.append(e2)
            self._alpha += extra

    def alphabet(self):
        return self._alpha

    def new(self):
        if self.kind == 'maildir':
            from ..worlds import MaildirWorld
            w = MaildirWorld(layout='++', jail_cheap=True,
                             users={'alice': ('pw', ()), 'bob': ('pw2', ())})
        else:
            w = DictWorld(users={'alice': ('pw', ()), 'bob': ('pw2', ())},
                          tls_enabled=False)
        ctx = type('C', (), {})()
        ctx.world = w
        ctx.s = [w.connect(proto='sieve'), w.connect(proto='sieve')]
        ctx.m = SModel()
        ctx.last = None
        return ctx

    def enabled(self, ctx):
        return [i for i, e in enumerate(self._alpha)
                if not ctx.m.closed[e['c']]]

    def terminal(self, ctx):
        return all(ctx.m.closed.values())

    def stores(self, ctx):
        out = {}
        if self.kind == 'maildir':
            import os
            from ..fsjail import unjailed
            for u in ('alice', 'bob'):
                path = os.path.join(ctx.world.user_dir(u), 'dovecot.sieve')
                with unjailed():
                    try:
                        with open(path, 'rb') as f:
                            out[u] = ({'active': f.read()}, 'active')
                    except FileNotFoundError:
                        out[u] = ({}, None)
            return out
        for u in ('alice', 'bob'):
            fs = ctx.world.filter_set(u)
            if fs is None:
                out[u] = ({}, None)
            else:
                out[u] = ({k: bytes(v) for k, v in fs._filters.items()},
                          fs._active)
        return out

    def send(self, ctx, c, line, conts=()):
        s = ctx.s[c]
        n0 = len(s.responses)
        if self.segmented:
            # the same bytes in several TCP segments: each one ends one byte
            # past a line break (so every literal is cut after its first
            # byte); the server runs until quiescent in between
            data = line + b'\r\n'
            cuts = [i + 2 for i in range(len(data)) if data[i:i + 1] == b'\n'
                    and i + 2 < len(data)]
            prev = 0
            for cpos in cuts + [len(data)]:
                if s.done:
                    break
                ctx.world.send(s, data[prev:cpos])
                prev = cpos
        else:
            ctx.world.send(s, line + b'\r\n')
        for chunk in conts:
            new = s.responses[n0:]
            if any(r[0] == 'status' for r in new) or s.done:
                break
            ctx.world.send(s, chunk)
        new = s.responses[n0:]
        if s.parse_error is not None and s.parse_error.kind == 'grammar':
            raise RuntimeError(f'unparseable ManageSieve output: '
                               f'{s.parse_error} {bytes(s.raw)[-200:]!r}')
        return new

    def apply(self, ctx, i):
        e = self._alpha[i]
        m: SModel = ctx.m
        c = e['c']
        out = []
        site = ('maildir:' if self.kind == 'maildir' else '') + \
            e['name'] + ('@auth' if m.who[c] else '@noauth')
        single = self.kind == 'maildir'

        def bad(rule, msg):
            out.append(Violation(rule, site, msg))
        before = self.stores(ctx)
        resp = self.send(ctx, c, e['line'], e.get('conts', ()))
        ctx.last = (e['name'], resp)
        status = [r for r in resp if r[0] == 'status']
        data = [r for r in resp if r[0] == 'data']
        s = ctx.s[c]
        if not status:
            bad('no-status', f'{e["name"]}: no OK/NO/BYE: {resp!r} '
                f'{bytes(s.raw)[-120:]!r}')
            return out
        cond = status[-1][1]
        who = m.who[c]
        after = self.stores(ctx)
        if len(status) > 1 and not e.get('conts'):
            bad('extra-responses', f'{e["name"]}: one command, '
                f'{len(status)} completions: {[r[1] for r in status][:6]}')
        if e.get('logout'):
            if not (s.done and s.conn.closed):
                bad('logout-open', 'connection still open after LOGOUT')
            m.closed[c] = True
            m.who[c] = None
            return out
        if s.done:
            bad('closed', f'{e["name"]}: connection ended: {resp!r}')
            m.closed[c] = True
            return out
        if e.get('any'):
            if cond != 'OK':
                bad('any-cond', f'{e["name"]} answered {cond}')
        elif 'auth' in e:
            if who is not None:
                # already authenticated: must be refused, identity unchanged
                if cond == 'OK':
                    bad('auth-twice', f'{e["name"]} accepted while '
                        f'authenticated as {who}')
            elif e['auth'] is None:
                if cond == 'OK':
                    bad('auth-accepted-bad', f'{e["name"]} answered OK')
            else:
                if cond != 'OK':
                    bad('auth-refused-good', f'{e["name"]} answered {cond} '
                        f'{status[-1]!r}')
                else:
                    m.who[c] = e['auth']
        elif e.get('unauth'):
            if who is None:
                if cond == 'OK':
                    bad('unauth-noauth', 'UNAUTHENTICATE OK while not '
                        'authenticated')
            else:
                if cond != 'OK':
                    bad('unauth-refused', f'UNAUTHENTICATE answered {cond}')
                else:
                    m.who[c] = None
        elif e.get('starttls'):
            if cond == 'OK' and who is not None:
                bad('starttls-auth', 'STARTTLS accepted while authenticated')
        elif e.get('bad'):
            if cond == 'OK':
                bad('bogus-ok', 'unknown command answered OK')
        else:
            op = e['op']
            if who is None:
                # pre-auth gate
                if cond == 'OK' or data:
                    bad('preauth-accepted', f'{e["name"]} before '
                        f'authentication answered {cond} {data!r}')
            else:
                sc = m.scripts[who]
                n = e.get('n')
                if op == 'put':
                    if cond == 'OK':
                        sc[n] = e['d']
                        if single and n == 'active':
                            # the one script this store holds is the active
                            # one by definition
                            m.active[who] = n
                    elif single and n != 'active':
                        pass    # a one-script store may refuse other names
                    elif n != '' and e['dk'] in ('valid', 'valid2'):
                        bad('put-refused', f'{e["name"]} answered {cond} '
                            f'{status[-1]!r}')
                elif op == 'get':
                    if n in sc:
                        if cond != 'OK' or not data or \
                                data[0][1][0] != sc[n]:
                            bad('get-mismatch', f'{e["name"]}: {resp!r:.200}, '
                                f'model {sc[n]!r}')
                    elif cond == 'OK':
                        bad('get-missing-ok', f'{e["name"]} of a missing '
                            f'script answered OK')
                elif op == 'list':
                    got = {}
                    for d in data:
                        vals = d[1]
                        nm = vals[0].decode('utf-8', 'surrogateescape')
                        got[nm] = len(vals) > 1 and \
                            bytes(vals[1]).upper() == b'ACTIVE'
                    want = {k: (k == m.active[who]) for k in sc}
                    if cond != 'OK' or got != want:
                        bad('list-mismatch', f'LISTSCRIPTS {got}, model '
                            f'{want}')
                elif op == 'setactive':
                    if n == '':
                        if cond != 'OK' and single:
                            pass    # (cannot keep a script it does not run)
                        elif cond != 'OK':
                            bad('setactive-clear', f'SETACTIVE "" -> {cond}')
                        else:
                            m.active[who] = None
                    elif n in sc:
                        if cond != 'OK':
                            bad('setactive-refused', f'{e["name"]} -> {cond}')
                        else:
                            m.active[who] = n
                    elif cond == 'OK':
                        bad('setactive-missing-ok', f'{e["name"]} of a '
                            f'missing script answered OK')
                elif op == 'delete':
                    if n not in sc:
                        if cond == 'OK':
                            bad('delete-missing-ok', f'{e["name"]} OK')
                    elif n == m.active[who]:
                        if cond == 'OK':
                            bad('delete-active-ok', f'{e["name"]}: the '
                                f'active script was deleted')
                            del sc[n]           # follow the implementation
                            m.active[who] = None
                    elif cond != 'OK':
                        bad('delete-refused', f'{e["name"]} -> {cond}')
                    else:
                        del sc[n]
                elif op == 'rename':
                    a, b = e['n'], e['m']
                    if a not in sc or b in sc:
                        if cond == 'OK':
                            bad('rename-ok', f'{e["name"]} answered OK '
                                f'(scripts {sorted(sc)})')
                    elif cond != 'OK':
                        if b != '' and not single:
                            bad('rename-refused', f'{e["name"]} -> {cond}')
                    else:
                        sc[b] = sc.pop(a)
                        if m.active[who] == a:
                            m.active[who] = b
        # stores must equal the model (users isolated; nothing touched by a
        # refused / pre-auth / other-user command)
        for u in ('alice', 'bob'):
            want = (m.scripts[u], m.active[u])
            if after[u] != want:
                bad('store-mismatch', f'{e["name"]} by {who}: store of {u} '
                    f'is {after[u]!r:.200}, model {want!r:.200}')
                m.scripts[u] = dict(after[u][0])
                m.active[u] = after[u][1]
        return out

    def key(self, ctx):
        return (ctx.m.key(), tuple(s.done for s in ctx.s))

    def outcome(self, ctx):
        if ctx.last is None:
            return None
        return tuple((r[0], r[1] if r[0] == 'status' else len(r[1]))
                     for r in ctx.last[1])

    def probe(self, ctx):
        """Black-box: a fresh authenticated connection per user lists and
        fetches everything; must equal the model."""
        out = []
        m: SModel = ctx.m
        # the explored connections themselves: what each sees must be the
        # store of the identity it authenticated as
        for c in (0, 1):
            who = m.who[c]
            if who is None or m.closed[c] or ctx.s[c].done:
                continue
            rs = self.send(ctx, c, b'LISTSCRIPTS')
            got = {}
            for r in rs:
                if r[0] == 'data' and isinstance(r[1][0], bytes):
                    got[r[1][0].decode('utf-8', 'surrogateescape')] = \
                        len(r[1]) > 1
            want = {k: (k == m.active[who]) for k in m.scripts[who]}
            if got != want:
                out.append(Violation('probe-own-list', f'conn-as-{who}',
                           f'connection {c} authenticated as {who} lists '
                           f'{got}, model {want}'))
        for u, pw in (('alice', b'pw'), ('bob', b'pw2')):
            p = ctx.world.connect(proto='sieve')
            n0 = len(p.responses)
            ctx.world.send(p, b'AUTHENTICATE "PLAIN" "' +
                           plain(u.encode(), pw) + b'"\r\n')
            ctx.world.send(p, b'LISTSCRIPTS\r\n')
            rs = p.responses[n0:]
            got = {}
            for r in rs:
                if r[0] == 'data' and isinstance(r[1][0], bytes):
                    got[r[1][0].decode('utf-8', 'surrogateescape')] = \
                        len(r[1]) > 1
            want = {k: (k == m.active[u]) for k in m.scripts[u]}
            if got != want:
                out.append(Violation('probe-list', f'user-{u}',
                           f'fresh session of {u} lists {got}, model {want}'))
            for nm, body in m.scripts[u].items():
                n1 = len(p.responses)
                ctx.world.send(p, b'GETSCRIPT ' + q(nm) + b'\r\n')
                rs = p.responses[n1:]
                d = [r for r in rs if r[0] == 'data']
                if not d or d[0][1][0] != body:
                    out.append(Violation('probe-get', f'user-{u}',
                               f'GETSCRIPT {nm!r} -> {rs!r:.160}, model '
                               f'{body!r}'))
        return out

    def close(self, ctx):
        ctx.world.close()

    def show_last(self, ctx):
        if ctx.last:
            print('   ', ctx.last[0], '->', ctx.last[1])


def run(*, tier, seed, jobs, progress, opts):
    t0 = time.perf_counter()
    depth = int(opts.get('depth', 4 if tier == 'quick' else 5))
    m = Model()
    res = bfs(m, depth, jobs=jobs, seed=seed, progress=progress,
              time_budget=float(opts.get('budget', 3000)))
    if res.errors:
        print(res.errors[0])
        raise RuntimeError('harness error during exploration')
    c = res.coverage(m)
    cov = {k: c[k] for k in ('states', 'transitions',
                             'traces_validated_against_impl',
                             'depth_completed', 'frontier_sizes',
                             'state_cap_hit', 'alphabet_size')}
    cov['alphabet'] = [f"c{e['c']}:{e['name']}" for e in m.alphabet()]
    cov['samples'] = [[f"c{e['c']}:{e['name']}" for e in s]
                      for s in c['samples'][:4]]
    cov['exhaustive'] = not c['state_cap_hit']
    cov['single_outcome_events'] = [f"c{e['c']}:{e['name']}"
                                    for e in c['single_outcome_events']]
    cov['rule'] = ('all ManageSieve command sequences up to the depth bound '
                   'on two connections (full alphabet on the first, reduced '
                   'on the second), deduplicated by model state + auth state; '
                   'the same exploration to depth-1 with every command '
                   'delivered in several segments (cut one byte past every '
                   'line break, i.e. inside every literal)')
    # delivery deviation: segmented input, same oracle
    m2 = Model(segmented=True)
    res2 = bfs(m2, max(1, depth - 1), jobs=jobs, seed=seed, progress=progress,
               max_states=int(opts.get('max_states', 400000)))
    if res2.errors:
        print(res2.errors[0])
        raise RuntimeError('harness error during exploration')
    c2 = res2.coverage(m2)
    cov['segmented'] = {k: c2[k] for k in ('states', 'transitions',
                                           'depth_completed')}
    cov['states'] += c2['states']
    cov['transitions'] += c2['transitions']
    cov['traces_validated_against_impl'] += c2['transitions']
    res.violations += res2.violations
    # the maildir backend's one-script store
    m3 = Model(kind='maildir')
    from ..worlds import scratch_parent
    with scratch_parent():
        res3 = bfs(m3, 3 if tier == 'quick' else 4, jobs=jobs, seed=seed,
                   progress=progress)
    if res3.errors:
        print(res3.errors[0])
        raise RuntimeError('harness error during exploration')
    c3 = res3.coverage(m3)
    cov['maildir'] = {k: c3[k] for k in ('states', 'transitions',
                                         'depth_completed', 'alphabet_size')}
    cov['states'] += c3['states']
    cov['transitions'] += c3['transitions']
    cov['traces_validated_against_impl'] += c3['transitions']
    res.violations += res3.violations
    return finish(PROP, tier=tier, seed=seed, level='model_checking',
                  coverage=cov, violations=res.violations, t0=t0,
                  assumptions=['dict backend filter store; two users; maildir '
                               'backend (one script, named active): names '
                               'other than active, SETACTIVE "" and '
                               'RENAMESCRIPT may be refused',
                               'PUTSCRIPT of a syntactically invalid script '
                               'or an empty name may be refused'])


def replay(rec):
    r = rec['replay']
    m = Model(**r.get('params', {}))
    viols = run_history(m, r['history'])
    for v in viols:
        print('VIOLATION-REPLAYED', v['rule'], v['site'], v['msg'])
    return 1 if viols else 0
