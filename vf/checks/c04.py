"""C04 -- UIDs strictly increasing, never reused, truthfully reported.

BFS over add/expunge/rename histories on the dict backend (canonical-state
dedup + monitor state) and complete enumeration of all histories to a smaller
depth on the maildir backend (no dedup), with a monotone-UID monitor keyed by
(mailbox name lineage, UIDVALIDITY) and token identity; plus restart at every
crash boundary for maildir (via C15)."""
from __future__ import annotations

import re
import time

from ..canon import dict_world_key
from ..driver import Ctx
from ..explore import bfs, run_history
from ..report import Violation, finish
from ..worlds import DictWorld, MaildirWorld, scratch_parent

PROP = 'C04'
TOKEN = re.compile(rb'token-([A-Za-z0-9]+)-body')


def body(tok: str) -> bytes:
    return (f'Subject: {tok}\r\n\r\ntoken-{tok}-body\r\n').encode()


def lit(b):
    return b'{%d+}\r\n%s' % (len(b), b)


EVENTS = [
    ('APPEND-INBOX', lambda t: [b'APPEND INBOX ' + lit(body(t))]),
    ('APPEND-a', lambda t: [b'APPEND a ' + lit(body(t))]),
    ('MULTIAPPEND-a', lambda t: [b'APPEND a ' + lit(body(t + 'x')) + b' ' +
                                 lit(body(t + 'y'))]),
    ('COPY1-a', lambda t: [b'COPY 1 a']),
    ('COPYall-a', lambda t: [b'COPY 1:* a']),
    ('COPY1-self', lambda t: [b'COPY 1 INBOX']),
    ('UIDCOPY-unordered-a', lambda t: [b'UID COPY 102,101,102 a']),
    ('MOVE1-a', lambda t: [b'MOVE 1 a']),
    ('MOVEall-self', lambda t: [b'MOVE 1:* INBOX']),
    ('DEL*+EXPUNGE', lambda t: [b'STORE * +FLAGS.SILENT (\\Deleted)',
                                b'EXPUNGE']),
    ('RENAME-a-b', lambda t: [b'RENAME a b']),
    ('RENAME-b-a', lambda t: [b'RENAME b a']),
    ('RENAME-INBOX-b', lambda t: [b'RENAME INBOX b']),
    ('DELETE-a+CREATE-a', lambda t: [b'DELETE a', b'CREATE a']),
    ('SELECT-a', lambda t: [b'SELECT a']),
    ('SELECT-INBOX', lambda t: [b'SELECT INBOX']),
    ('B:APPEND-INBOX', lambda t: [b'APPEND INBOX ' + lit(body(t))]),
    ('B:MOVE1-INBOX(from a)', lambda t: [b'MOVE 1 INBOX']),
    # the newest message of a: after MOVE1-a that is the message which came
    # from INBOX and now goes back (same file, same maildir key)
    ('B:MOVElast-INBOX(from a)', lambda t: [b'NOOP', b'MOVE * INBOX']),
]


class Monitor:
    def __init__(self) -> None:
        self.assigned: dict = {}      # (name, uv) -> {uid: token}
        self.uidnext: dict = {}       # (name, uv) -> last reported UIDNEXT
        self.gone: dict = {}          # (name, uv) -> UIDs seen, then absent
        self.problems: list = []

    def key(self):
        return tuple(sorted((k, tuple(sorted(v.items())))
                            for k, v in self.assigned.items())), \
            tuple(sorted(self.uidnext.items())), \
            tuple(sorted((k, tuple(sorted(v))) for k, v in self.gone.items()))

    def rename(self, a, b):
        for (nm, uv) in list(self.assigned):
            if nm == a:
                self.assigned[(b, uv)] = self.assigned.pop((nm, uv))
                if (nm, uv) in self.uidnext:
                    self.uidnext[(b, uv)] = self.uidnext.pop((nm, uv))
                if (nm, uv) in self.gone:
                    self.gone[(b, uv)] = self.gone.pop((nm, uv))

    def observe(self, dump, where):
        for name, ent in dump.items():
            if ent is None:
                continue
            uv, uidnext, rows = ent
            k = (name, uv)
            known = self.assigned.setdefault(k, {})
            mx = max(known) if known else 0
            prev_next = self.uidnext.get(k)
            gone = self.gone.setdefault(k, set())
            present = {u for u, _ in rows}
            for uid in present & gone:
                self.problems.append((
                    'uid-resurrected', where,
                    f'{name} UIDVALIDITY {uv}: UID {uid} had disappeared '
                    f'(expunged or moved away) and denotes a message again: '
                    f'{sorted(rows)}'))
            gone -= present
            gone |= set(known) - present
            for uid, tok in sorted(rows):
                if uid in known:
                    if known[uid] != tok:
                        self.problems.append((
                            'uid-reused', where,
                            f'{name} UIDVALIDITY {uv}: UID {uid} denoted '
                            f'{known[uid]}, now {tok}'))
                else:
                    if uid <= mx:
                        self.problems.append((
                            'uid-not-increasing', where,
                            f'{name} UIDVALIDITY {uv}: new UID {uid} for '
                            f'{tok} is not above the highest UID ever '
                            f'assigned there ({mx})'))
                    if prev_next is not None and uid < prev_next:
                        self.problems.append((
                            'uidnext-too-high', where,
                            f'{name}: UIDNEXT {prev_next} was reported, but '
                            f'{tok} then received UID {uid}'))
                    known[uid] = tok
                    mx = max(mx, uid)
            if rows and uidnext is not None and \
                    uidnext <= max(u for u, _ in rows):
                self.problems.append((
                    'uidnext-too-low', where,
                    f'{name}: UIDNEXT {uidnext} but UID '
                    f'{max(u for u, _ in rows)} exists'))
            if uidnext is not None and known and uidnext <= max(known):
                self.problems.append((
                    'uidnext-below-assigned', where,
                    f'{name} UIDVALIDITY {uv}: UIDNEXT {uidnext} although '
                    f'UID {max(known)} was assigned before (it would be '
                    f'reused)'))
            if uidnext is not None:
                self.uidnext[k] = uidnext


class Model:
    name = 'c04'

    def __init__(self, kind='dict', two_sessions=False) -> None:
        self.kind = kind
        self.two = two_sessions
        self.params = {'kind': kind, 'two_sessions': two_sessions}
        self._alpha = [{'name': n, 'i': i} for i, (n, _) in enumerate(EVENTS)
                       if two_sessions or not n.startswith('B:')]

    def alphabet(self):
        return self._alpha

    def new(self):
        if self.kind == 'dict':
            w = DictWorld(users={'alice': ('pw', ())})
        else:
            w = MaildirWorld(layout=self.kind, users={'alice': ('pw', ())},
                             jail_cheap=True)
        ctx = Ctx(w)
        a = ctx.connect()
        p = ctx.connect()
        b = ctx.connect()
        for si in (a, p, b):
            assert ctx.do(si, b'LOGIN alice pw').cond == 'OK'
        assert ctx.do(a, b'CREATE a').cond == 'OK'
        assert ctx.do(a, b'CREATE c').cond == 'OK'
        for t in ('i1', 'i2'):
            assert ctx.do(a, b'APPEND INBOX ' + lit(body(t))).cond == 'OK'
        assert ctx.do(a, b'APPEND a ' + lit(body('a1'))).cond == 'OK'
        assert ctx.do(a, b'SELECT INBOX').cond == 'OK'
        assert ctx.do(b, b'SELECT a').cond == 'OK'
        ctx.extra.update(a=a, p=p, b=b, n=0, mon=Monitor(), closed=False)
        ctx.extra['mon'].observe(self.dump(ctx), 'initial')
        ctx.steps.clear()
        return ctx

    def enabled(self, ctx):
        if ctx.extra['closed']:
            return []
        return range(len(self._alpha))

    def dump(self, ctx):
        p = ctx.extra['p']
        out = {}
        st = ctx.do(p, b'LIST "" *')
        names = [r.data[2] for r in st.untagged('LIST')
                 if not any(x.lower() == b'\\noselect' for x in r.data[0])]
        for nm in names:
            st = ctx.do(p, b'STATUS ' + nm + b' (UIDNEXT UIDVALIDITY MESSAGES)')
            rows = st.untagged('STATUS')
            if st.cond != 'OK' or not rows:
                out[nm.decode()] = None
                continue
            d = rows[0].data[1]
            se = ctx.do(p, b'EXAMINE ' + nm)
            if se.cond != 'OK':
                out[nm.decode()] = None
                continue
            uvs = [r.code_arg for r in se.responses
                   if r.kind == 'untagged' and r.code == b'UIDVALIDITY']
            uns = [r.code_arg for r in se.responses
                   if r.kind == 'untagged' and r.code == b'UIDNEXT']
            sf = ctx.do(p, b'UID FETCH 1:* (UID BODY.PEEK[])')
            msgs = []
            for r in sf.untagged('FETCH'):
                m = TOKEN.search(r.data.get(('BODY', b'', None)) or b'')
                msgs.append((r.data['UID'], m.group(1).decode() if m else '?'))
            ctx.do(p, b'CLOSE')
            uv = d.get('UIDVALIDITY')
            un = d.get('UIDNEXT')
            if uvs and uvs[0] != uv:
                ctx.extra['mon'].problems.append((
                    'uidvalidity-disagrees', 'dump',
                    f'{nm!r}: STATUS UIDVALIDITY {uv}, SELECT {uvs[0]}'))
            if uns and un is not None and uns[0] != un:
                # both must satisfy the rules: use the smaller for "too low"
                un = min(un, uns[0])
            out[nm.decode()] = (uv, un, msgs)
        for h in ctx.harness_errors:
            raise RuntimeError(h)
        return out

    def apply(self, ctx, i):
        ev = self._alpha[i]
        name, mk = EVENTS[ev['i']]
        mon: Monitor = ctx.extra['mon']
        out = []
        ctx.extra['n'] += 1
        tok = 'k%d' % ctx.extra['n']
        si = ctx.extra['b'] if name.startswith('B:') else ctx.extra['a']
        s = ctx.session(si)
        if s.done:
            return out
        before = self.dump(ctx)
        view_before = None
        sel = s.state._selected if s.state is not None else None
        for line in mk(tok):
            if s.done:
                break
            st = ctx.do(si, line)
            if st.tagged is None:
                continue
            verb = st.verb
            if st.cond == 'OK' and verb == 'RENAME':
                parts = line.split()
                mon.rename(parts[1].decode(), parts[2].decode())
                # sessions whose selected mailbox was renamed away keep a
                # view that pymap now applies, by name, to another mailbox
                for sj in (ctx.extra['a'], ctx.extra['b']):
                    sx = ctx.session(sj)
                    if sx.state is not None and \
                            sx.state._selected is not None and \
                            sx.state._selected._lookup == parts[1].decode():
                        ctx.extra.setdefault('stale', set()).add(sj)
            if st.cond == 'OK' and verb in ('SELECT', 'EXAMINE'):
                ctx.extra.setdefault('stale', set()).discard(si)
            if st.cond == 'OK' and verb == 'DELETE':
                pass
            self.check_codes(ctx, si, line, st, before, tok, name, out)
        if s.done:
            ctx.extra['closed'] = True
        after = self.dump(ctx)
        mon.observe(after, name)
        for rule, where, msg in mon.problems:
            out.append(Violation(rule, f'{self.kind}:{where}', msg))
        mon.problems.clear()
        if si in ctx.extra.get('stale', ()):
            for v in out:
                v['site'] = f'{self.kind}:selection-renamed-away'
        for sh in ctx.shadows:
            sh.take_problems()
        return out

    def check_codes(self, ctx, si, line, st, before, tok, name, out):
        """APPENDUID / COPYUID are the UIDs that UID FETCH then finds, paired
        source-to-destination in order."""
        if st.cond != 'OK':
            return
        code = (st.tagged.code, st.tagged.code_arg)
        for r in st.responses:
            if r.kind == 'untagged' and r.code == b'COPYUID':
                code = (r.code, r.code_arg)
        if code[0] not in (b'APPENDUID', b'COPYUID'):
            return
        now = self.dump(ctx)
        site = f'{self.kind}:{name}'
        if code[0] == b'APPENDUID':
            uv, uidset = code[1]
            box = line.split()[1].decode()
            box = 'INBOX' if box.upper() == 'INBOX' else box
            ent = now.get(box)
            uids = expand(uidset)
            toks = [t for t in TOKEN.findall(line)]
            if ent is None:
                return
            if ent[0] != uv:
                out.append(Violation('appenduid-uidvalidity', site,
                           f'APPENDUID {uv}, mailbox has UIDVALIDITY {ent[0]}'))
            have = dict(ent[2])
            for u, t in zip(uids, toks):
                if have.get(u) != t.decode():
                    out.append(Violation(
                        'appenduid-wrong', site,
                        f'APPENDUID says {t.decode()} got UID {u}; UID FETCH '
                        f'finds {have.get(u)} there ({sorted(have.items())})'))
            if len(uids) != len(toks):
                out.append(Violation('appenduid-count', site,
                           f'{len(toks)} messages, APPENDUID {uidset!r}'))
        else:
            uv, srcset, dstset = code[1]
            src = expand(srcset)
            dst = expand(dstset)
            parts = line.split()
            dest = parts[-1].decode()
            dest = 'INBOX' if dest.upper() == 'INBOX' else dest
            s = ctx.session(si)
            selname = s.state._selected._lookup if s.state is not None and \
                s.state._selected is not None else None
            srcbox = before.get(selname) if selname else None
            dent = now.get(dest)
            if len(src) != len(dst):
                out.append(Violation('copyuid-length', site,
                           f'COPYUID {srcset!r} {dstset!r}'))
                return
            if srcbox is None or dent is None:
                return
            if dent[0] != uv:
                out.append(Violation('copyuid-uidvalidity', site,
                           f'COPYUID {uv}, destination UIDVALIDITY {dent[0]}'))
            stoks = dict(srcbox[2])
            dtoks = dict(dent[2])
            for a, b in zip(src, dst):
                if a in stoks and dtoks.get(b) != stoks[a]:
                    out.append(Violation(
                        'copyuid-pairing', site,
                        f'COPYUID pairs source UID {a} ({stoks[a]}) with '
                        f'destination UID {b}, which holds {dtoks.get(b)}; '
                        f'{srcset!r} -> {dstset!r}'))
                    break

    def key(self, ctx):
        mon = ctx.extra['mon']
        if self.kind == 'dict':
            wk = dict_world_key(ctx.world)
        else:
            wk = tuple(s.summary() for s in ctx.steps)     # no dedup
        return (wk, mon.key(), ctx.extra['closed'],
                tuple(sorted(ctx.extra.get('stale', ()))))

    def outcome(self, ctx):
        return ctx.last.summary() if ctx.last else None

    def probe(self, ctx):
        """Look-ahead: the next add in every mailbox must receive a UID >=
        the UIDNEXT just reported and above everything ever assigned."""
        out = []
        if ctx.extra['closed']:
            return out
        mon: Monitor = ctx.extra['mon']
        p = ctx.extra['p']
        d0 = self.dump(ctx)
        for nm, ent in sorted(d0.items()):
            if ent is None:
                continue
            st = ctx.do(p, b'APPEND ' + nm.encode() + b' ' + lit(body('probe')))
            if st.cond != 'OK' or st.tagged.code != b'APPENDUID':
                continue
            uv, uidset = st.tagged.code_arg
            uid = expand(uidset)[0]
            known = mon.assigned.get((nm, ent[0]), {})
            if ent[1] is not None and uid < ent[1]:
                out.append(Violation('uidnext-too-high', f'{self.kind}:probe',
                           f'{nm}: UIDNEXT {ent[1]} reported, next APPEND got '
                           f'UID {uid}'))
            if uv == ent[0] and known and uid <= max(known):
                out.append(Violation('uid-not-increasing',
                           f'{self.kind}:probe',
                           f'{nm}: next APPEND got UID {uid}, but UID '
                           f'{max(known)} was assigned before under the same '
                           f'UIDVALIDITY {uv}'))
        for h in ctx.harness_errors:
            raise RuntimeError(h)
        return out

    def close(self, ctx):
        ctx.close()

    def show_last(self, ctx):
        ctx.show_last()


# ---- maildir: adders contending for the UID list lock ------------------------

def contention_exec(layout, order, gaps, cmds, foreign_at=None,
                    unlock_after=0):
    """Two sessions add to the same mailbox while a foreign process holds the
    UID-list lock file; ``order`` is a permutation of the external events
    (feed A, feed B, foreign unlock), ``gaps`` how many retry timers fire
    between them.  Returns violations."""
    import os
    from .. import fsjail
    out = []
    w = MaildirWorld(layout=layout, users={'alice': ('pw', ())})
    ctx = Ctx(w)
    site = f'{layout}:lock-contention'
    try:
        a, b, p = ctx.connect(), ctx.connect(), ctx.connect()
        for si in (a, b, p):
            assert ctx.do(si, b'LOGIN alice pw').cond == 'OK'
        assert ctx.do(a, b'CREATE a').cond == 'OK'
        for t in ('i1', 'i2'):
            assert ctx.do(a, b'APPEND INBOX ' + lit(body(t))).cond == 'OK'
        assert ctx.do(a, b'APPEND a ' + lit(body('a1'))).cond == 'OK'
        assert ctx.do(a, b'SELECT INBOX').cond == 'OK'
        assert ctx.do(b, b'SELECT a').cond == 'OK'
        box = 'INBOX'
        lock = os.path.join(w.user_dir('alice'), 'dovecot-uidlist.lock')
        loop = w.loop
        lines = {'A': (a, b'xa ' + cmds[0](b'ka') + b'\r\n'),
                 'B': (b, b'xb ' + cmds[1](b'kb') + b'\r\n')}
        hit = [False]
        if foreign_at is not None:
            # another process takes the UID-list lock between two filesystem
            # calls of the server (the n-th mutating call after both commands
            # arrived) and lets go after ``unlock_after`` retry timers
            start = [None]

            def boundary(idx, op, rps):
                if start[0] is None:
                    start[0] = idx
                if idx - start[0] == foreign_at and not hit[0]:
                    hit[0] = True
                    with fsjail.unjailed():
                        try:
                            with open(lock, 'x'):
                                pass
                        except FileExistsError:
                            hit[0] = 'busy'
            w.jail.on_boundary = boundary
            for nm in ('A', 'B'):
                si, line = lines[nm]
                ctx.session(si).conn.feed(line)
            loop.run_until_quiescent(timers=False)
            w.jail.on_boundary = None
            for _ in range(unlock_after):
                if loop.advance_to_next_timer():
                    loop.run_until_quiescent(timers=False)
            if hit[0] is True:
                with fsjail.unjailed():
                    try:
                        os.unlink(lock)
                    except FileNotFoundError:
                        pass
            order, gaps = (), ()
            if hit[0] is False:
                return out, False
        else:
            with fsjail.unjailed():
                with open(lock, 'x'):
                    pass
        for ev, gap in zip(order, gaps):
            if ev == 'U':
                with fsjail.unjailed():
                    try:
                        os.unlink(lock)
                    except FileNotFoundError:
                        pass
            else:
                si, line = lines[ev]
                ctx.session(si).conn.feed(line)
            loop.run_until_quiescent(timers=False)
            for _ in range(gap):
                if loop.advance_to_next_timer():
                    loop.run_until_quiescent(timers=False)
        loop.run_until_quiescent(horizon=60.0)
        results = {}
        for name, (si, line) in lines.items():
            s = ctx.session(si)
            data, rs = s.pull()
            for r in rs:
                if r.kind == 'tagged' and r.tag in (b'xa', b'xb'):
                    results[name] = r
        m = Model(layout)
        ctx.extra.update(a=a, p=p, b=b, n=0, mon=Monitor(), closed=False)
        d = m.dump(ctx)
        ent = d.get(box)
        rows = dict(ent[2]) if ent else {}
        toks = list(rows.values())
        label = ''.join(order) + '/' + ''.join(map(str, gaps)) \
            if foreign_at is None else \
            f'foreign lock at fs call #{foreign_at}, released after ' \
            f'{unlock_after} timers'
        for name, tok in (('A', 'ka'), ('B', 'kb')):
            r = results.get(name)
            if r is None:
                out.append(Violation('no-completion', site,
                           f'[{label}] {name} got no tagged response'))
                continue
            if r.name != 'OK':
                continue      # e.g. NO [TIMEOUT]: nothing may be claimed
            code = r.code_arg if r.code == b'APPENDUID' else None
            if r.code == b'COPYUID':
                code = (r.code_arg[0], r.code_arg[2])
            if code is None:
                continue
            uid = expand(code[1])[0]
            want = tok if r.code == b'APPENDUID' else None
            have = rows.get(uid)
            if want is not None and have != want:
                out.append(Violation(
                    'appenduid-wrong', site,
                    f'[{label}] {name} was told UID {uid} for {want}; UID '
                    f'FETCH finds {have} there; mailbox {sorted(rows.items())}'))
            if want is not None and toks.count(want) != 1:
                out.append(Violation(
                    'acked-add-lost', site,
                    f'[{label}] {name}\'s acknowledged message {want} is '
                    f'stored {toks.count(want)} times; mailbox '
                    f'{sorted(rows.items())}'))
        if len(set(rows)) != len(rows):
            out.append(Violation('uid-duplicate', site, f'[{label}] {rows}'))
        ctx.harness_errors.clear()
    finally:
        w.jail.on_boundary = None
        ctx.close()
    if foreign_at is not None:
        return out, True
    return out


def _contention(args):
    layout, order, gaps, ci = args
    cmds = CONTENTION_CMDS[ci]
    try:
        if order == 'foreign-at-boundary':
            vs, hit = contention_exec(layout, ('AB',), gaps, cmds,
                                      foreign_at=gaps[0], unlock_after=gaps[1])
            return vs, (1 if hit else 0)
        return contention_exec(layout, order, gaps, cmds), 1
    except AssertionError as exc:
        return [Violation('setup-failed', f'{layout}:lock-contention',
                          repr(exc))], 0


CONTENTION_CMDS = [
    (lambda t: b'APPEND INBOX ' + lit(body(t.decode())),
     lambda t: b'APPEND INBOX ' + lit(body(t.decode()))),
    (lambda t: b'APPEND INBOX ' + lit(body(t.decode())),
     lambda t: b'COPY 1 INBOX'),
    (lambda t: b'APPEND INBOX ' + lit(body(t.decode())),
     lambda t: b'MOVE 1 INBOX'),
]


def expand(s: bytes):
    out = []
    for part in s.split(b','):
        if b':' in part:
            a, b = map(int, part.split(b':'))
            out.extend(range(min(a, b), max(a, b) + 1))
        else:
            out.append(int(part))
    return out


def run(*, tier, seed, jobs, progress, opts):
    with scratch_parent():
        return _run(tier=tier, seed=seed, jobs=jobs, progress=progress,
                    opts=opts)


def _run(*, tier, seed, jobs, progress, opts):
    t0 = time.perf_counter()
    if 'depth' in opts:
        plans = [(opts.get('kind', 'dict'), bool(int(opts.get('two', 0))),
                  int(opts['depth']))]
    elif tier == 'quick':
        plans = [('dict', False, 3), ('dict', True, 3), ('++', False, 2),
                 ('++', True, 2)]
    else:
        plans = [('dict', False, 4), ('dict', True, 4), ('++', False, 3),
                 ('fs', False, 3), ('++', True, 2)]
    violations = []
    cov = {'plans': [], 'states': 0, 'transitions': 0,
           'traces_validated_against_impl': 0, 'samples': []}
    for kind, two, depth in plans:
        m = Model(kind, two)
        res = bfs(m, depth, jobs=jobs, seed=seed, progress=progress)
        if res.errors:
            print(res.errors[0])
            raise RuntimeError('harness error during exploration')
        c = res.coverage(m)
        cov['plans'].append({'backend': kind, 'second_session': two,
                             'depth': depth, 'dedup': kind == 'dict',
                             **{k: c[k] for k in (
                                 'states', 'transitions', 'depth_completed',
                                 'frontier_sizes')}})
        cov['states'] += c['states']
        cov['transitions'] += c['transitions']
        cov['traces_validated_against_impl'] += c['transitions']
        cov['samples'] += [[e['name'] for e in s] for s in c['samples'][:2]]
        violations += res.violations
    # restart at every crash boundary (maildir): C15's machinery, UID rules
    from . import c15
    import multiprocessing as mp
    names = [n for n, _ in c15.ALPHABET]
    ix = names.index
    hists = [(ix('APPEND-INBOX'),), (ix('APPEND-INBOX'), ix('APPEND-INBOX')),
             (ix('CREATE-a'), ix('COPY1-a')), (ix('CREATE-a'), ix('MOVE1-a')),
             (ix('STORE1=Deleted'), ix('EXPUNGE'), ix('APPEND-INBOX')),
             (ix('CREATE-a'), ix('APPEND-a'), ix('RENAME-a-b')),
             (ix('APPEND-INBOX'), ix('CHECK'), ix('APPEND-INBOX'))]
    tasks = [(layout, h, False) for layout in ('++', 'fs') for h in hists]
    crash = 0
    with mp.get_context('fork').Pool(min(16, len(tasks))) as pool:
        for vs, n, _ in pool.imap_unordered(c15._work, tasks):
            crash += n
            for v in vs:
                if v['rule'] in ('acked-uid-changed', 'uid-reassigned'):
                    v['site'] = 'restart:' + v['site']
                    violations.append(v)
    import itertools
    ctasks = []
    for layout in (('++',) if tier == 'quick' else ('++', 'fs')):
        for order in itertools.permutations('ABU'):
            for gaps in itertools.product(range(0, 4 if tier == 'quick'
                                                else 6), repeat=3):
                for ci in range(len(CONTENTION_CMDS)):
                    ctasks.append((layout, order, gaps, ci))
    for layout in (('++',) if tier == 'quick' else ('++', 'fs')):
        for ci in range(len(CONTENTION_CMDS)):
            for i in range(0, 90):
                for k in (0, 1, 2, 4):
                    ctasks.append((layout, 'foreign-at-boundary', (i, k), ci))
    cexec = 0
    with mp.get_context('fork').Pool(jobs or 16) as pool:
        for vs, n in pool.imap_unordered(_contention, ctasks, chunksize=8):
            violations += vs
            cexec += n
    # E7: two server threads/processes on one maildir, every schedule of
    # their filesystem calls with <= bound preemptions
    from . import c04mt
    if tier == 'quick':
        core = ['APPEND', 'SELECT', 'COPY', 'MOVE', 'EXPUNGE']
        mtasks = [('++', pr, False, 1, None) for pr in c04mt.pairs(core)]
        mtasks += [('++', pr, True, 1, None) for pr in c04mt.pairs(core)
                   if 'SELECT' in pr or pr == ('APPEND', 'APPEND')]
        mtasks += [('++', pr, False, 1, None) for pr in c04mt.EXTRA_PAIRS]
    else:
        mtasks = [(layout, pr, d, 1, None) for layout in ('++', 'fs')
                  for pr in c04mt.pairs(c04mt.ORDER) for d in (False, True)]
        mtasks += [(layout, pr, False, 1, None) for layout in ('++', 'fs')
                   for pr in c04mt.EXTRA_PAIRS if layout == '++'
                   or 'raw' not in pr[0] + pr[1]]
        core = ['APPEND', 'SELECT', 'COPY', 'MOVE']
        from . import mtmaildir as mtm
        # bound 2: one task per group of first-level deviations
        for pr in c04mt.pairs(core) + c04mt.EXTRA_PAIRS[:4]:
            mtasks += [('++', pr, False, 2, None, ch) for ch in
                       mtm.split_prefixes('++', pr, c04mt.PROGRAMS, 2, 0)]
        # CHECK against a SELECT that claims new/: needs two preemptions
        # (spread over the workers by first-level deviation)
        pr2 = ('SELECT', 'CHECK-holding-new')
        mtasks += [('++', pr2, False, 2, None, ch) for ch in
                   mtm.split_prefixes('++', pr2, c04mt.PROGRAMS, 2, 0)]
        # three processes at once (a waiter behind a waiter)
        mtasks += [(layout, t3, False, 1, None) for layout in ('++', 'fs')
                   for t3 in (('APPEND', 'APPEND', 'APPEND'),
                              ('APPEND', 'COPY', 'SELECT'),
                              ('MOVE', 'APPEND', 'CHECK'))]
    if 'mt' in opts:
        mtasks = [t for t in mtasks if t[3] <= int(opts['mt'])]
    mt_cov = {'pairs': 0, 'executions': 0, 'max_decision_points': 0,
              'distinct_outcomes': 0, 'by_preemptions': {}, 'capped': False,
              'bounds': sorted({t[3] for t in mtasks})}
    # longest first
    mtasks.sort(key=lambda t: -t[3])
    with mp.get_context('fork').Pool(jobs or 16) as pool:
        for st in pool.imap_unordered(c04mt.task, mtasks, chunksize=1):
            if 'error' in st:
                raise RuntimeError(f'E7 harness error: {st}')
            mt_cov['pairs'] += 1
            mt_cov['executions'] += st['executions']
            mt_cov['distinct_outcomes'] += st['outcomes']
            mt_cov['max_decision_points'] = max(
                mt_cov['max_decision_points'], st['max_points'])
            mt_cov['capped'] = mt_cov['capped'] or st['capped']
            for k, n in st['by_preemptions'].items():
                mt_cov['by_preemptions'][str(k)] = \
                    mt_cov['by_preemptions'].get(str(k), 0) + n
            violations += st['violations']
            if progress:
                print(f'# E7 {st["names"]}: {st["executions"]} schedules, '
                      f'{st["outcomes"]} outcomes', flush=True)
    cov['threads'] = mt_cov
    cov['transitions'] += mt_cov['executions']
    cov['traces_validated_against_impl'] += mt_cov['executions']
    cov['lock_contention_executions'] = cexec
    cov['transitions'] += cexec
    cov['traces_validated_against_impl'] += cexec
    cov['crash_states_recovered'] = crash
    cov['crash_histories'] = len(tasks)
    cov['alphabet'] = [n for n, _ in EVENTS]
    cov['exhaustive'] = True
    cov['rule'] = ('dict: BFS over all histories <= depth (canonical glass-box '
                   'state + monitor state dedup); maildir: every history <= '
                   'depth, no dedup; after every step all mailboxes are '
                   'dumped through a probe connection and fed to the monitor; '
                   'in every state one look-ahead APPEND per mailbox; 14 '
                   'maildir histories x every crash boundary x restart; '
                   'maildir lock contention: two adders (APPEND/COPY/MOVE) '
                   'and a foreign holder of the UID-list lock file, every '
                   'order of {feed A, feed B, foreign unlock} x 0..3 (thorough '
                   '0..5) retry timers fired between them; and a foreign '
                   'process taking the lock between two filesystem calls of '
                   'the server: at every mutating filesystem call (0..89) '
                   'after both commands arrived, released after 0/1/2/4 timers; '
                   'E7: two real server instances (own backend objects and '
                   'event loop, as two worker threads or two processes have) '
                   'on one maildir, each running one command of {APPEND, '
                   'SELECT, COPY, MOVE, EXPUNGE, NOOP, STATUS, APPEND without '
                   'selection} (optionally with an undelivered file in new/), '
                   'plus 15 further pairs (CHECK against the adders, a session '
                   'scanning the source of a MOVE, two MOVEs of one message '
                   'into the selected mailbox, MOVE out and back, a folder '
                   'without UID list opened by two sessions at once), '
                   'every schedule of their filesystem calls with at most 1 '
                   '(thorough: core pairs 2) preemptions; afterwards every '
                   'session and a fresh one dump the mailboxes')
    return finish(PROP, tier=tier, seed=seed, level='model_checking',
                  coverage=cov, violations=violations, t0=t0, assumptions=[
                      'owned PRNG: adversarial collisions of the 16 random '
                      'UIDVALIDITY bits are not explored',
                      'E7 reduction: maildir sessions share only the '
                      'filesystem (each has its own MailboxSet, locks and '
                      'caches), so thread/process interleavings are explored '
                      'at filesystem-call granularity; a sleeping lock waiter '
                      'is woken only after another process changed the disk '
                      'or when nothing else can run (lock time-outs while '
                      'others make progress are not explored)'])


def replay(rec):
    r = rec['replay']
    if r.get('mt'):
        from . import c04mt, mtmaildir as mt
        names = tuple(r['names'])
        with scratch_parent():
            pre = [c04mt.PROGRAMS[n][0](i) for i, n in enumerate(names)]
            progs = [c04mt.PROGRAMS[n][1](i) for i, n in enumerate(names)]
            ex, info = mt.run_schedule(r['layout'], progs, r['prefix'],
                                       deliver=r['deliver'], pre=pre)
            viols = c04mt.judge(r['layout'], names, r['deliver'], ex, info)
            mt.drop_templates()
        for v in viols:
            print('VIOLATION-REPLAYED', v['rule'], v['site'], v['msg'])
        return 1 if viols else 0
    if 'params' not in r:
        print(r)
        return 0
    with scratch_parent():
        m = Model(r['params']['kind'], r['params']['two_sessions'])
        viols = run_history(m, r['history'])
    for v in viols:
        print('VIOLATION-REPLAYED', v['rule'], v['site'], v['msg'])
    return 1 if viols else 0
