"""C06 -- every input is answered: no hang, no internal error, no silent
drop.  Bounded-exhaustive input enumeration (E8) on the real server."""
from __future__ import annotations

import multiprocessing as mp
import os
import time

from .. import enum_inputs as E
from ..explore import _digest
from ..fuzzdrv import LineRunner
from ..report import Violation, finish

PROP = 'C06'
PARSE_IS_VIOLATION = False     # C07 sets this

_RUNNERS: dict = {}


HOSTILE_ENV = {
    # the victim's selected mailbox changes under its feet
    'selected/inbox-renamed': dict(select=b'SELECT INBOX',
                                   post=[b'RENAME INBOX old']),
    'selected/mailbox-deleted': dict(select=b'SELECT Sent',
                                     post=[b'DELETE Sent']),
    'selected/all-expunged': dict(select=b'SELECT INBOX', post=[
        b'SELECT INBOX', b'STORE 1:* +FLAGS (\\Deleted)', b'EXPUNGE']),
    'selected/recreated': dict(select=b'SELECT Sent', post=[
        b'DELETE Sent', b'CREATE Sent']),
    # a message is delivered by a session that has nothing selected (its
    # \Recent is credited to the victim's selection) and expunged by
    # somebody else before the victim has ever seen it
    'selected/delivered-then-expunged': dict(select=b'SELECT INBOX', post=[
        b'APPEND INBOX (\\Deleted) {23+}\r\nSubject: x\r\n\r\nbody x\r\n',
        b'SELECT INBOX', b'EXPUNGE']),
}


def runner(state, proto):
    r = _RUNNERS.get((state, proto))
    if r is None:
        backend = 'dict'
        if '@' in state:
            # 'selected@++': the same state on a maildir backend
            state_, backend = state.split('@')
        else:
            state_ = state
        if state_ in HOSTILE_ENV:
            r = LineRunner('selected', proto, backend=backend,
                           **HOSTILE_ENV[state_])
        else:
            r = LineRunner(state_, proto, backend=backend)
        _RUNNERS[(state, proto)] = r
    return r


def _classify(res, raw, label, out):
    for rule, site, msg in res['problems']:
        out.append(Violation(rule, site, f'[{label}] {msg}',
                             replay={'label': label, 'input': raw}))


def _task(args):
    kind, state, proto, items = args
    out = []
    n = 0
    kinds = {}
    outs = set()
    r = runner(state, proto)
    for raw in items:
        if kind == 'script':
            # a list of inputs on one fresh world; all output is checked
            r.drop()
            r.build()
            for line in raw:
                if r.w is None or r.v.done:
                    break
                if isinstance(line, tuple):
                    # (command line, answers to its continuation requests)
                    line, answers = line
                    r.answers = list(answers)
                res = r.run(line, label='script', keep=True)
                r.answers = []
                n += 1
                outs.add(_digest(res['out']))
                _classify(res, line, 'script', out)
                _stream_end(res, r, 'script', out, {'script': list(raw)})
                pe = res['parse_error']
                if PARSE_IS_VIOLATION and pe is not None \
                        and pe.kind == 'grammar':
                    out.append(Violation(
                        'malformed-response', _ctx_site(res['out'], pe, res.get('base', 0)),
                        f'[script] after {line!r:.100}: {pe} in '
                        f'{res["out"]!r:.300}',
                        replay={'script': list(raw)}))
                    break
            r.drop()
            continue
        if kind == 'msg':
            # store the message, then hit it with every FETCH item / SEARCH key
            body = raw
            r.drop()
            r.build()
            res = r.run(b'm1 APPEND INBOX ' + E.lit(body) + b'\r\n',
                        label='corpus-append')
            n += 1
            _classify(res, b'APPEND <%d bytes>' % len(body), 'corpus-append',
                      out)
            ok = any(x.kind == 'tagged' and x.name == 'OK'
                     for x in res['responses'])
            if not ok:
                continue
            if r.w is None:
                r.build()
                continue
            # the world now contains the message as * in INBOX (victim has
            # INBOX selected); keep this world for all probes
            r.sig0 = r.signature()
            for it in E.FETCH_ITEMS:
                if r.w is None:
                    break
                line = b'f1 FETCH * ' + it + b'\r\n'
                res = r.run(line, label='corpus-fetch')
                n += 1
                _classify(res, b'msg=' + body[:60] + b'... ' + line,
                          'corpus-fetch', out)
                _stream_end(res, r, 'corpus-fetch', out,
                            {'msg': body, 'line': line})
                outs.add(_digest(res['out']))
                pe = res['parse_error']
                if PARSE_IS_VIOLATION and pe is not None \
                        and pe.kind == 'grammar':
                    out.append(Violation(
                        'malformed-response', _ctx_site(res['out'], pe, res.get('base', 0)),
                        f'[corpus-fetch] msg={body!r:.80} {line!r}: {pe} in '
                        f'{res["out"]!r:.300}',
                        replay={'msg': body, 'line': line}))
                    r.drop()
                    break
                if r.w is not None:
                    r.sig0 = r.signature()     # \Seen may have been set
            for k in E.SEARCH_KEYS:
                if r.w is None:
                    break
                line = b's1 SEARCH ' + k + b'\r\n'
                res = r.run(line, label='corpus-search')
                n += 1
                _classify(res, b'msg=' + body[:60] + b'... ' + line,
                          'corpus-search', out)
                outs.add(_digest(res['out']))
            r.drop()
            continue
        if kind == 'hostile-env':
            r.drop()          # every line meets the changed mailbox first
        res = r.run(raw, label=kind)
        n += 1
        kinds[res['kind']] = kinds.get(res['kind'], 0) + 1
        outs.add(_digest(res['out']))
        _classify(res, raw, f'{kind}/{proto}/{state}', out)
        if PARSE_IS_VIOLATION and proto == 'imap':
            pe = res['parse_error']
            if pe is not None and pe.kind == 'grammar':
                out.append(Violation(
                    'malformed-response', _ctx_site(res['out'], pe, res.get('base', 0)),
                    f'[{kind}] input {raw!r:.100}: {pe} in {res["out"]!r:.200}',
                    replay={'input': raw}))
                r.drop()
    return out, n, kinds, len(outs)


def _ctx_site(out, pe, base=0):
    import re
    # which response / fetch item was being written when parsing failed
    off = pe.offset - base
    upto = out[:max(0, off)] if 0 <= off <= len(out) else out
    items = re.findall(rb'(ENVELOPE|BODYSTRUCTURE|BODY\[|BODY|BINARY|RFC822|'
                       rb'FLAGS|LIST|LSUB|STATUS|SEARCH|ID|BAD|NO|OK)\b',
                       out[-400:] if not upto else upto[-400:])
    item = items[-1].decode() if items else '?'
    return item + ':' + re.sub(r'\d+', 'N', pe.msg)[:60]


def _stream_end(res, r, label, out, replay):
    """C07: a connection's stream must not end inside a response."""
    if not PARSE_IS_VIOLATION:
        return
    pe = res['parse_error']
    if res['kind'] == 'closed' and pe is not None and pe.kind == 'incomplete':
        sites = [s for rule, s, _ in res['problems'] if rule == 'serverbug']
        out.append(Violation('stream-ends-inside-response',
                             sites[0] if sites else 'unknown',
                             f'[{label}] connection closed after '
                             f'{res["out"][-80:]!r}', replay=replay))


def chunks(seq, n):
    seq = list(seq)
    for i in range(0, len(seq), n):
        yield seq[i:i + n]


SIEVE_CMDS = [b'AUTHENTICATE', b'STARTTLS', b'LOGOUT', b'CAPABILITY',
              b'HAVESPACE', b'PUTSCRIPT', b'LISTSCRIPTS', b'SETACTIVE',
              b'GETSCRIPT', b'DELETESCRIPT', b'RENAMESCRIPT', b'CHECKSCRIPT',
              b'NOOP', b'UNAUTHENTICATE']
SIEVE_ARGS = [b'', b'"a"', b'"a" "b"', b'{1+}\r\na', b'{1}', b'"a" {3+}\r\nabc',
              b'"a" 10', b'"a" 99999999999999999999', b'"unterminated',
              b'"a\\"b"', b'"\xe9"', b'"\xff\xfe"', b'(', b'{99999999999+}',
              b'"a" {5+}\r\nkeep;', b'"PLAIN" "!!!"', b'"PLAIN" ""',
              b'"PLAIN" {1+}\r\n*', b'"a" "a" "a"', b'"" ""', b'a b',
              b'"a" {3+}\r\n\x00\xff\r', b'NIL', b'"PLAIN"', b'"BOGUS" "x"',
              b'{0+}\r\n', b'"a"  "b"', b'"a" {12+}\r\nif true { }}',
              # SASL responses that are not UTF-8 / not base64
              b'"PLAIN" "/wD+AHg="', b'"PLAIN" "a"', b'"LOGIN" "/w=="']


def build_tasks(tier):
    T = []
    states = ['nonauth', 'auth', 'selected']
    raw_len = 4 if tier != 'quick' else 3
    raws = list(E.raw_strings(raw_len))
    # (a) raw lines, bare and behind a tag, in every state, both protocols
    for st in states:
        lines = [r + b'\r\n' for r in raws] + \
                [b'a ' + r + b'\r\n' for r in raws]
        for ch in chunks(lines, 800):
            T.append(('raw', st, 'imap', ch))
    for st in ('nonauth', 'auth'):
        lines = [r + b'\r\n' for r in E.raw_strings(3)]
        for ch in chunks(lines, 800):
            T.append(('raw', st, 'sieve', ch))
    # raw strings as the argument of every command word
    words = [b'SELECT', b'LIST', b'STATUS', b'FETCH', b'STORE', b'SEARCH',
             b'COPY', b'APPEND', b'LOGIN', b'CREATE', b'RENAME', b'ID',
             b'UID FETCH', b'UID SEARCH', b'AUTHENTICATE', b'EXAMINE',
             b'DELETE', b'SUBSCRIBE', b'LSUB', b'MOVE', b'UID STORE',
             b'UID EXPUNGE', b'IDLE', b'ENABLE']
    args = list(E.raw_strings(2))
    for st in states:
        lines = [b'a ' + w + b' ' + a + b'\r\n' for w in words for a in args]
        for ch in chunks(lines, 800):
            T.append(('cmd-raw-arg', st, 'imap', ch))
    # (b) templates x hostile slots, in their own state and in the others
    by_state = {}
    for st, line in E.template_lines(pairs=True):
        by_state.setdefault(st, []).append(b'a ' + line + b'\r\n')
    # the same lines against the maildir backend (real files)
    for layout in (('++',) if tier == 'quick' else ('++', 'fs')):
        for st in ('auth', 'selected'):
            for ch in chunks(by_state.get(st, []), 150):
                T.append(('template', f'{st}@{layout}', 'imap', ch))
    for st, lines in by_state.items():
        for ch in chunks(lines, 300):
            T.append(('template', st, 'imap', ch))
            if True:
                for other in states:
                    if other != st:
                        T.append(('template-wrong-state', other, 'imap', ch))
    # every valid line (and every fetch item / search key) after another
    # session pulled the rug from under the selected mailbox; each line on a
    # fresh world (the first command after the change is the interesting one)
    for env in HOSTILE_ENV:
        lines = [b'a ' + ln + b'\r\n' for _, ln in E.valid_lines()]
        lines += [b'a FETCH 1:* ' + it + b'\r\n' for it in E.FETCH_ITEMS]
        lines += [b'a UID FETCH 1:* ' + it + b'\r\n'
                  for it in E.FETCH_ITEMS[:8]]
        lines += [b'a SEARCH ' + k + b'\r\n' for k in E.SEARCH_KEYS]
        lines += [b'a STORE 1 +FLAGS (\\Seen)\r\n', b'a NOOP\r\n',
                  b'a COPY 1 Trash\r\n', b'a MOVE 1:* Trash\r\n',
                  b'a UID STORE 101 -FLAGS (\\Seen)\r\n', b'a IDLE\r\n',
                  b'a CLOSE\r\n', b'a EXPUNGE\r\n', b'a CHECK\r\n',
                  b'a STATUS INBOX (MESSAGES)\r\n', b'a SELECT INBOX\r\n']
        for ch in chunks(lines, 40):
            T.append(('hostile-env', env, 'imap', ch))
        # on maildir the other session's change removes real files the
        # victim's cached view still refers to
        if env != 'selected/inbox-renamed':
            for ch in chunks(lines, 20):
                T.append(('hostile-env', env + '@++', 'imap', ch))
    # (c) single-point mutations of every valid line
    for st, line in E.valid_lines():
        base = b'a ' + line + b'\r\n'
        muts = sorted(set(E.mutations(base)))
        for ch in chunks(muts, 600):
            T.append(('mutation', st, 'imap', ch))
    # ManageSieve commands x hostile arguments
    for st in ('nonauth', 'auth'):
        lines = [c + (b' ' + a if a else b'') + b'\r\n'
                 for c in SIEVE_CMDS for a in SIEVE_ARGS]
        lines += [c.lower() + b'\r\n' for c in SIEVE_CMDS]
        T.append(('sieve-cmd', st, 'sieve', lines))
    # (d) message corpus x every FETCH item x every SEARCH key
    msgs = list(E.token_messages(2 if tier == 'quick' else 3)) + \
        E.bomb_messages()
    for ch in chunks(msgs, 6):
        T.append(('msg', 'selected', 'imap', ch))
    # the C07 corpora (names, header values, MIME shapes, keywords)
    from . import c07
    for fam, scripts in c07.families(tier):
        if fam == 'auth':
            # exchanges before login
            for ch in chunks(scripts, 40):
                T.append(('script', 'nonauth', 'imap', ch))
            continue
        for ch in chunks(scripts, 40):
            T.append(('script', 'selected', 'imap', ch))
        # names, raw names and keywords reach the filesystem on maildir
        # (folder names, the dovecot-keywords file); thorough: everything
        if tier != 'quick' or fam in ('raw-names', 'keywords', 'dates'):
            for ch in chunks(scripts, 20):
                T.append(('script', 'selected@++', 'imap', ch))
        elif fam == 'names':
            for ch in chunks(scripts[:120], 20):
                T.append(('script', 'selected@++', 'imap', ch))
    # the bad-command limit (default configuration)
    T.append(('limit', 'nonauth', 'imap', None))
    return T


def _limit_task(_):
    """Default configuration: 5 consecutive BAD commands end the connection;
    the client must be told (BYE) before the close."""
    out = []
    r = LineRunner('nonauth', 'imap', world_kw={'bad_command_limit': 5})
    r.build()
    seen = b''
    for i in range(6):
        res = r.run(b'x%d BOGUS\r\n' % i, label='limit')
        seen += res['out']
        for rule, site, msg in res['problems']:
            out.append(Violation(rule, 'bad-command-limit:' + site, msg,
                                 replay={'input': 'x BOGUS x5'}))
        if r.w is None:
            break
    r.drop()
    return out, 6, {}, 1


def _dispatch(args):
    if args[0] == 'limit':
        return _limit_task(args)
    return _task(args)


def run(*, tier, seed, jobs, progress, opts, prop=PROP, extra_tasks=None,
        rule_text=None, keep_rules=None):
    t0 = time.perf_counter()
    tasks = build_tasks(tier) + (extra_tasks or [])
    tasks.sort(key=lambda t: _digest((seed, t[0], t[1], t[2],
                                      len(t[3] or ()))))
    njobs = jobs or min(16, os.cpu_count() or 1)
    violations = []
    total = 0
    kinds = {}
    per_family = {}
    distinct = 0
    from ..worlds import scratch_parent
    with scratch_parent(), \
            mp.get_context('fork').Pool(njobs, maxtasksperchild=20) as pool:
        for k, (vs, n, kd, nd) in enumerate(
                pool.imap_unordered(_dispatch, tasks)):
            violations += vs
            total += n
            distinct += nd
            for a, b in kd.items():
                kinds[str(a)] = kinds.get(str(a), 0) + b
            if progress and k % 20 == 0:
                print(f'  {k}/{len(tasks)} tasks, {total} inputs, '
                      f'{len(violations)} raw violations, '
                      f't={time.perf_counter() - t0:.0f}s', flush=True)
    if keep_rules is not None:
        violations = [v for v in violations if v['rule'] in keep_rules]
    for t in tasks:
        per_family[t[0]] = per_family.get(t[0], 0) + \
            (len(t[3]) if t[3] else 6)
    cov = {'evaluations': total,
           'distinct_nontrivial': distinct,
           'inputs_per_family': per_family,
           'outcome_kinds': kinds,
           'rule': rule_text or (
               'complete enumeration per family: raw lines over a 16-byte '
               'alphabet (bare and tagged) to length 3 (thorough 4) in 3 states on IMAP '
               'and ManageSieve; every command word x all raw arguments to '
               'length 2; every template x every value of every slot (pairs '
               'of hostile slots), also in the wrong states; every valid line, fetch item and search key after another session renamed/deleted/re-created/emptied the selected mailbox; single-point mutations '
               '(delete/duplicate/replace-by-12-bytes/insert at every '
               'position) of every valid line; ManageSieve commands x hostile '
               'arguments; message corpus x every FETCH item x every SEARCH '
               'key (token messages to 2 tokens, thorough 3, + 37 bomb messages); distinct = distinct server outputs summed over tasks'),
           'samples': [repr(t[3][len(t[3]) // 2])[:120] for t in tasks[:10]
                       if t[3]],
           'exhaustive': True}
    return finish(prop, tier=tier, seed=seed, level='exploration',
                  coverage=cov, violations=violations, t0=t0, assumptions=[
                      'dict backend with demo data (templates x hostile slots '
                      'also on the maildir backend, real files); lines shorter '
                      'than the 64 KiB stream limit',
                      'a line whose announced literal is longer than the '
                      'bytes supplied leaves the server legitimately waiting',
                      'per-input CPU watchdog 5 s; step budget 50 000 handles'])


def replay(rec):
    r = rec['replay']
    print(r)
    return 0
