"""Shared harness for E7 explorations of the maildir backend: two (or three)
server threads/processes on one maildir, every schedule of their filesystem
calls up to a preemption bound.  Used by C04 (UID assignment), C20 (lock
exclusion) and C14/C10-style conservation oracles."""
from __future__ import annotations

import os
import re
import shutil

from .. import fsjail
from ..loop import SharedVLoop
from ..procs import Sched, ScheduleError
from ..report import Violation
from ..worlds import MaildirWorld, scratch_root

TOKEN = re.compile(rb'token-([A-Za-z0-9]+)-body')


def body(tok: str) -> bytes:
    return (f'Subject: {tok}\r\n\r\ntoken-{tok}-body\r\n').encode()


def lit(b):
    return b'{%d+}\r\n%s' % (len(b), b)


_TEMPLATES: dict = {}
_INITIAL: dict = {}


def template(layout: str) -> str:
    """INBOX = i1 i2 i3, a = a1 a2; built once per worker process."""
    t = _TEMPLATES.get(layout)
    if t is None:
        w = MaildirWorld(layout=layout, users={'alice': ('pw', ())},
                         jail_cheap=True)
        s = w.connect()

        def do(line):
            tag, data, rs = w.cmd(s, line, horizon=30.0)
            ok = [r for r in rs if r.kind == 'tagged' and r.tag == tag]
            assert ok and ok[0].name == 'OK', (line, data)
        do(b'LOGIN alice pw')
        do(b'CREATE a')
        for t_ in ('i1', 'i2', 'i3'):
            do(b'APPEND INBOX ' + lit(body(t_)))
        for t_ in ('a1', 'a2'):
            do(b'APPEND a ' + lit(body(t_)))
        do(b'SELECT INBOX')
        do(b'SELECT a')
        do(b'LOGOUT')
        w.own_root = False
        w.close()
        t = _TEMPLATES[layout] = w.root
    return t


def drop_templates() -> None:
    for t in _TEMPLATES.values():
        shutil.rmtree(t, ignore_errors=True)
    _TEMPLATES.clear()
    _INITIAL.clear()


class Cluster:
    """N server processes on a fresh copy of the template store."""

    def __init__(self, layout: str, n: int) -> None:
        self.layout = layout
        troot = template(layout)
        root = scratch_root()
        shutil.rmtree(root)
        shutil.copytree(troot, root, symlinks=True)
        self.clock = [0.0]
        self.worlds = []
        w0 = MaildirWorld(layout=layout, root=root, reuse=True,
                          users={'alice': ('pw', ())}, jail_cheap=True,
                          loop=SharedVLoop(self.clock))
        w0.own_root = True
        self.worlds.append(w0)
        for _ in range(n):      # n more: the last one is the fresh observer
            self.worlds.append(MaildirWorld(
                layout=layout, root=root, reuse=True,
                users={'alice': ('pw', ())}, loop=SharedVLoop(self.clock),
                jail=w0.jail))
        self.jail = w0.jail
        self.sessions = []
        for w in self.worlds:
            s = w.connect()
            self.cmd(len(self.sessions), b'LOGIN alice pw', s=s, w=w)
            self.sessions.append(s)

    def deliver(self) -> None:
        # a delivery agent drops a message into INBOX/new (no UID yet)
        with fsjail.unjailed():
            p = os.path.join(self.worlds[0].user_dir('alice'), 'new',
                             '1700000000.M1P1Q1.lda')
            with open(p, 'wb') as f:
                f.write(body('d1').replace(b'\r\n', b'\n'))

    def make_raw_folder(self) -> None:
        """A maildir folder created by some other program: cur/new/tmp (and
        the maildirfolder marker) but no dovecot-uidlist."""
        base = self.worlds[0].user_dir('alice')
        d = os.path.join(base, '.raw' if self.layout == '++' else 'raw')
        with fsjail.unjailed():
            for sub in ('cur', 'new', 'tmp'):
                os.makedirs(os.path.join(d, sub), exist_ok=True)
            open(os.path.join(d, 'maildirfolder'), 'w').close()

    def cmd(self, i, line, s=None, w=None, need_ok=True):
        w = w or self.worlds[i]
        s = s or self.sessions[i]
        tag, data, rs = w.cmd(s, line, horizon=60.0)
        tg = [r for r in rs if r.kind == 'tagged' and r.tag == tag]
        if need_ok:
            assert tg and tg[0].name == 'OK', (line, bytes(data)[-200:])
        return (tg[0] if tg else None), rs

    def dump(self, i, names=('INBOX', 'a'), status=True):
        """{name: (uidvalidity, uidnext, [(uid, token)])} as session i sees
        it (EXAMINE: no \\Recent claim, no flag change)."""
        out = {}
        for nm in names:
            tg, rs = self.cmd(i, b'EXAMINE ' + nm.encode(), need_ok=False)
            if tg is None or tg.name != 'OK':
                out[nm] = None
                continue
            uv = [r.code_arg for r in rs
                  if r.kind == 'untagged' and r.code == b'UIDVALIDITY']
            un = [r.code_arg for r in rs
                  if r.kind == 'untagged' and r.code == b'UIDNEXT']
            tg, rs = self.cmd(i, b'UID FETCH 1:* (UID BODY.PEEK[])',
                              need_ok=False)
            rows = []
            for r in rs:
                if r.kind == 'untagged' and r.name == 'FETCH':
                    m = TOKEN.search(r.data.get(('BODY', b'', None)) or b'')
                    rows.append((r.data.get('UID'),
                                 m.group(1).decode() if m else '?'))
            rs2 = ()
            if status:
                tg2, rs2 = self.cmd(i, b'STATUS ' + nm.encode() +
                                    b' (UIDNEXT UIDVALIDITY)', need_ok=False)
            for r in rs2:
                if r.kind == 'untagged' and r.name == 'STATUS':
                    d = r.data[1]
                    if un and d.get('UIDNEXT') is not None:
                        un = [min(un[0], d['UIDNEXT'])]
            out[nm] = (uv[0] if uv else None, un[0] if un else None, rows,
                       tg.name if tg is not None else None)
        self.cmd(i, b'CLOSE', need_ok=False)
        return out

    def close(self) -> None:
        for w in reversed(self.worlds):
            try:
                w.close()
            except Exception:   # noqa: BLE001
                pass


def run_schedule(layout, programs, prefix, deliver=False, pre=None):
    """One execution: processes 0..n-1 run ``programs[i]`` (list of command
    lines) after the optional sequential prologue ``pre[i]``; returns
    (Execution, info)."""
    n = len(programs)
    cl = Cluster(layout, n)
    raw = any(b' raw' in ln for pr in programs for ln in pr)
    try:
        if raw:
            cl.make_raw_folder()
        key = layout
        initial = _INITIAL.get(key)
        if initial is None:
            # identical for every copy of the template
            initial = _INITIAL[key] = cl.dump(n)
        marked = False
        for i in range(n):
            for line in (pre[i] if pre else ()):
                if line == b'#DELIVER':
                    cl.deliver()      # a file dropped into INBOX/new
                    marked = True
                    continue
                cl.cmd(i, line)
        if deliver:
            cl.deliver()
        before = cl.dump(n) if marked else None
        sched = Sched(cl.jail, private_dirs=[cl.worlds[0].tmp_dir],
                      shared_root=cl.worlds[0].root)
        procs = [sched.add(cl.worlds[i], cl.sessions[i], programs[i])
                 for i in range(n)]
        ex = sched.run(prefix)
        info = {
            'initial': initial,
            'before': before,
            'results': [p.results for p in procs],
            'fs_calls': [p.fs_calls for p in procs],
            'stuck': ex.stuck,
        }
        info['views'] = [cl.dump(i, names=('INBOX',), status=False)
                         for i in range(n)]
        info['final'] = cl.dump(n, names=('INBOX', 'a', 'raw') if raw
                                else ('INBOX', 'a'))
        return ex, info
    finally:
        cl.close()


def explain(ex, limit=60):
    """Human-readable schedule: maximal runs of one process."""
    out = []
    for ent in ex.trace:
        pid, what = ent[0], ent[1:]
        w = what[0] + (':' + ','.join(what[1]) if len(what) > 1 else '')
        if out and out[-1][0] == pid:
            out[-1][1].append(w)
        else:
            out.append((pid, [w]))
    parts = []
    for pid, ws in out[:limit]:
        if len(ws) > 4:
            ws = ws[:2] + [f'..{len(ws) - 3} more..'] + ws[-1:]
        parts.append(f'P{pid}[' + ' '.join(ws) + ']')
    return ' '.join(parts)


def split_root(run_root, bound, lock_bonus=0, nchunks=16):
    """Generic form: ``run_root()`` executes the default schedule and returns
    its Execution; returns the first-level deviation prefixes in groups."""
    from ..procs import children
    ex = run_root()
    drop_templates()
    ch = children(ex, [], bound, lock_bonus)
    return [ch[k::nchunks] for k in range(nchunks) if ch[k::nchunks]]


def split_prefixes(layout, names, programs, bound, lock_bonus=0,
                   deliver=False, nchunks=16):
    """Run the default schedule once and return the first-level deviation
    prefixes in ``nchunks`` groups (to spread one pair over the workers)."""
    from ..procs import children
    pre = [programs[n][0](i) for i, n in enumerate(names)]
    progs = [programs[n][1](i) for i, n in enumerate(names)]
    ex, _ = run_schedule(layout, progs, [], deliver=deliver, pre=pre)
    drop_templates()
    ch = children(ex, [], bound, lock_bonus)
    return [ch[k::nchunks] for k in range(nchunks) if ch[k::nchunks]]


def explore_pair(layout, names, programs, judge, bound, deliver=False,
                 cap=None, tag='mt', lock_bonus=0, prefixes=None):
    """Explore every schedule (<= bound preemptions) of the program pair
    ``names`` from the table ``programs`` (name -> (prologue(i), program(i),
    ...)); ``judge(layout, names, deliver, ex, info)`` -> violations."""
    from ..procs import explore, ScheduleError
    pre = [programs[n][0](i) for i, n in enumerate(names)]
    progs = [programs[n][1](i) for i, n in enumerate(names)]
    vios: list = []
    outcomes: set = set()

    def run(prefix):
        ex, info = run_schedule(layout, progs, prefix, deliver=deliver,
                                pre=pre)
        for x in judge(layout, names, deliver, ex, info):
            x['replay'] = {tag: True, 'layout': layout, 'names': list(names),
                           'deliver': deliver, 'prefix': list(prefix)}
            vios.append(x)
        fin = info['final']
        outcomes.add((tuple((k, tuple(v[2]) if v else None)
                            for k, v in sorted(fin.items())),
                      tuple((r.name, r.code_arg) for res in info['results']
                            for _, r, _ in res)))
        return ex, info
    try:
        st = explore(run, bound, max_execs=cap, lock_bonus=lock_bonus,
                     prefixes=prefixes)
    except ScheduleError as exc:
        return {'error': repr(exc), 'names': names}
    finally:
        drop_templates()
    st['violations'] = vios
    st['outcomes'] = len(outcomes)
    st['names'] = names
    return st
