"""C01 -- sequence numbers: the client view never diverges from the server."""
from __future__ import annotations

import time

from ..explore import bfs, run_history
from ..report import finish
from .seqmodel import SeqModel

PROP = 'C01'
ORACLE = 'c01'


def RO_PLAN(depth):
    # one of the two sessions has selected the mailbox read-only: what it
    # asks for is refused, what the other does it must still be told
    return dict(nsess=2, depth=depth, idle=False, ro_actor=True,
                cmds=['STORE1+Del', 'STORE2+Del.SILENT', 'EXPUNGE', 'NOOP',
                      'FETCHall', 'UIDSTORE102+Flagged', 'MOVE1-Other',
                      'SEARCHall', 'STORE3Flagged'])


def plans(tier, opts):
    if 'depth' in opts:
        return [dict(nsess=int(opts.get('nsess', 2)),
                     depth=int(opts['depth']))]
    if tier == 'quick':
        return [dict(nsess=2, depth=3),
                dict(nsess=2, depth=3, predeleted=True, idle=False,
                     cmds=['EXPUNGE', 'UIDEXPUNGE101', 'STORE1+Del', 'NOOP',
                           'FETCHall', 'APPEND', 'STORE*-Del', 'MOVE1-Other',
                           'UIDSTORE102+Flagged', 'STORE3Flagged']),
                dict(nsess=2, depth=4, idle=False,
                     cmds=['STORE1+Del', 'EXPUNGE', 'APPEND', 'MOVE1-Other',
                           'FETCHall', 'UIDFETCH1:*', 'NOOP', 'UIDSTORE102+Flagged']),
                RO_PLAN(3)]
    return [dict(nsess=2, depth=4),
            dict(nsess=2, depth=4, predeleted=True, idle=False,
                 cmds=['EXPUNGE', 'UIDEXPUNGE101', 'STORE1+Del', 'NOOP',
                       'FETCHall', 'APPEND', 'STORE*-Del', 'MOVE1-Other',
                       'UIDSTORE102+Flagged', 'STORE3Flagged']),
            dict(nsess=3, depth=3, predeleted=True, idle=False,
                 cmds=['EXPUNGE', 'UIDEXPUNGE101', 'NOOP', 'STORE1+Del']),
            dict(nsess=2, depth=5, idle=False,
                 cmds=['STORE1+Del', 'EXPUNGE', 'APPEND', 'MOVE1-Other',
                       'FETCHall', 'UIDFETCH1:*', 'NOOP', 'UIDSTORE102+Flagged',
                       'STORE2+Del.SILENT', 'SEARCHall']),
            dict(nsess=3, depth=3, idle=False),
            dict(nsess=2, depth=3, observer=True),
            RO_PLAN(4)]


def run(*, tier, seed, jobs, progress, opts, prop=PROP, oracle=ORACLE,
        assumptions=None, rule=None):
    t0 = time.perf_counter()
    violations = []
    cov = {'plans': [], 'states': 0, 'transitions': 0,
           'traces_validated_against_impl': 0, 'samples': []}
    for plan in plans(tier, opts):
        depth = plan.pop('depth')
        m = SeqModel(oracle=oracle, **plan)
        res = bfs(m, depth, jobs=jobs, seed=seed, progress=progress)
        if res.errors:
            print(res.errors[0])
            raise RuntimeError('harness error during exploration')
        c = res.coverage(m)
        cov['plans'].append({'sessions': m.nsess, 'observer': m.observer,
                             'start_with_two_deleted': m.predeleted,
                             'session0_read_only': m.ro_actor,
                             'depth': depth,
                             'alphabet': sorted({e['name'] for e in m.alphabet()}),
                             **{k: c[k] for k in (
                                 'states', 'transitions', 'depth_completed',
                                 'frontier_sizes', 'state_cap_hit')},
                             'single_outcome_events': [
                                 f"s{e['s']}:{e['name']}"
                                 for e in c['single_outcome_events']]})
        cov['states'] += c['states']
        cov['transitions'] += c['transitions']
        cov['traces_validated_against_impl'] += c['transitions']
        cov['samples'] += [[f"s{e['s']}:{e['name']}" for e in smp]
                           for smp in c['samples'][:3]]
        violations += res.violations
    # E7: the maildir backend under real concurrency -- two sessions as two
    # server instances on one maildir, every schedule of their filesystem
    # calls; the shadow clients apply what each session is sent (C01's
    # transcript rules) and are compared with the mailbox after one NOOP (C02)
    if 'depth' not in opts:
        import multiprocessing as mp
        from . import c02mt
        from ..worlds import scratch_parent
        keep = (lambda r: r.startswith('shadow.') or r == 'no-completion') \
            if oracle == 'c01' else (lambda r: r.startswith('c02.'))
        mtc = {'pairs': 0, 'executions': 0, 'distinct_outcomes': 0,
               'by_preemptions': {}, 'max_decision_points': 0}
        with scratch_parent(), \
                mp.get_context('fork').Pool(jobs or 16) as pool:
            for st in pool.imap_unordered(c02mt.task, c02mt.tasks(tier),
                                          chunksize=1):
                if 'error' in st:
                    raise RuntimeError(f'E7 harness error: {st}')
                mtc['pairs'] += 1
                mtc['executions'] += st['executions']
                mtc['distinct_outcomes'] += st['outcomes']
                mtc['max_decision_points'] = max(
                    mtc['max_decision_points'], st['max_points'])
                for k, n in st['by_preemptions'].items():
                    mtc['by_preemptions'][str(k)] = \
                        mtc['by_preemptions'].get(str(k), 0) + n
                violations += [v for v in st['violations']
                               if keep(v['rule'])]
        cov['maildir_threads'] = mtc
        cov['transitions'] += mtc['executions']
        cov['traces_validated_against_impl'] += mtc['executions']
    cov['exhaustive'] = True
    cov['rule'] = (rule or (
        'all interleavings of whole commands of N sessions on one dict '
        'mailbox up to the depth bound (whole commands are the only '
        'asyncio-realizable granularity: DESIGN F2/F3), IDLE/DONE as '
        'separate events; deduplicated by canonical glass-box state '
        'including each session\'s shadow client')) + (
        '; E7 (maildir): two sessions with INBOX selected, each running one '
        'command of {APPEND, STORE own/same message, EXPUNGE, MOVE, COPY, '
        'FETCH BODY[], NOOP, ...} as two real server instances on one '
        'maildir, every schedule of their filesystem calls with <= 1 '
        'preemption (thorough: both layouts, core pairs 2); then one NOOP '
        'each')
    return finish(prop, tier=tier, seed=seed, level='model_checking',
                  coverage=cov, violations=violations, t0=t0,
                  assumptions=assumptions or [
                      'dict backend, asyncio subsystem; <= 3 sessions',
                      'programs longer than the depth bound not explored',
                      'E7: maildir thread/process interleavings at '
                      'filesystem-call granularity, one command per session'])


def replay_mt(r):
    from . import c02mt
    from ..worlds import scratch_parent
    from . import mtmaildir as mt
    with scratch_parent():
        ex, info = c02mt.run_schedule(r['layout'], tuple(r['names']),
                                      r['prefix'], r.get('deliver', False))
        viols = c02mt.judge(r['layout'], tuple(r['names']), ex, info)
        mt.drop_templates()
    for v in viols:
        print('VIOLATION-REPLAYED', v['rule'], v['site'], v['msg'])
    return 1 if viols else 0


def replay(rec):
    r = rec['replay']
    if r.get('mt02'):
        return replay_mt(r)
    p = dict(r['params'])
    p.pop('oracle', None)
    m = SeqModel(oracle=ORACLE, **p)
    viols = run_history(m, r['history'])
    for v in viols:
        print('VIOLATION-REPLAYED', v['rule'], v['site'], v['msg'])
    return 1 if viols else 0
