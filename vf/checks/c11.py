"""C11 -- mailbox namespace commands behave as the reference model says.

Two-level search like C10: driver sequences (BFS) x probe alphabet, oracle =
vf/refmodel/namespace.py with explicit RFC tolerances."""
from __future__ import annotations

import multiprocessing as mp
import os
import time

from ..canon import dict_world_key
from ..driver import Ctx
from ..explore import bfs, replay as replay_hist, run_history, _digest
from ..refmodel import namespace as ns
from ..refmodel import mutf7
from ..report import Violation, finish
from ..worlds import DictWorld
from .seqmodel import lit, msg

PROP = 'C11'


def W(name: str) -> bytes:
    return mutf7.wire(name)


def D(op, *names, s=0):
    return {'op': op, 'names': list(names), 's': s}


def render(d) -> bytes:
    op = d['op']
    n = d['names']
    if op in ('CREATE', 'DELETE', 'SUBSCRIBE', 'UNSUBSCRIBE', 'SELECT'):
        return op.encode() + b' ' + W(n[0])
    if op == 'RENAME':
        return b'RENAME ' + W(n[0]) + b' ' + W(n[1])
    if op == 'APPEND':
        return b'APPEND ' + W(n[0]) + b' ' + lit(msg(1))
    if op == 'STATUS':
        return b'STATUS ' + W(n[0]) + \
            b' (MESSAGES UIDNEXT UIDVALIDITY MAILBOXID)'
    if op in ('LIST', 'LSUB'):
        return op.encode() + b' ' + (W(n[0]) if n[0] else b'""') + b' ' + \
            (_pat(n[1]) if n[1] else b'""')
    raise AssertionError(d)


def _pat(p: str) -> bytes:
    enc = mutf7.encode(p)
    if all(0x21 <= c <= 0x7e and c not in b'(){"\\]' for c in enc):
        return enc
    return b'"' + enc.replace(b'\\', b'\\\\').replace(b'"', b'\\"') + b'"'


def name_of(d):
    return d['op'] + ' ' + ' '.join(repr(x) for x in d['names'])


def driver_alphabet():
    return [D('CREATE', 'a'), D('CREATE', 'a/b'), D('CREATE', 'c'),
            D('DELETE', 'a'), D('DELETE', 'a/b'),
            D('RENAME', 'a', 'd'), D('RENAME', 'INBOX', 'old'),
            D('SUBSCRIBE', 'a'), D('UNSUBSCRIBE', 'a'),
            D('SUBSCRIBE', 'a/b'), D('APPEND', 'a'),
            D('SELECT', 'a', s=1), D('CREATE', 'd/e/f')]


HOSTILE = ['inbox', 'Inbox', 'INBOX/x', 'a', 'a/', 'a//b', '*', '%', 'a"b',
           'a\nb', 'é', '&', 'c', 'zz', 'a/b/c', 'A',
           # other characters that text tools take for line breaks
           'a\x0cc', 'a\x1dc', 'a\x85c', 'a\u2028c', 'a\rc', ' a', 'a ',
           # names of the directories and files a maildir consists of
           'cur', 'new', 'tmp', 'a/cur', 'cur/x', 'dovecot-uidlist',
           'subscriptions', 'a/dovecot-uidlist',
           # str.upper() maps a dotless i to I: not a spelling of INBOX
           '\u0131nbox', '\u0131NBOX',
           # fullwidth letters: compatibility normalisation would give INBOX
           '\uff29\uff2e\uff22\uff2f\uff38',
           # the on-disk separator of the ++ layout inside a name
           'v1.0', 'a.b', '.x']


# names a maildir directory consists of (fs layout: cannot be mailboxes)
FS_RESERVED = {'cur', 'new', 'tmp', 'maildirfolder', 'dovecot-uidlist',
               'dovecot-uidlist.lock', 'dovecot-keywords', 'subscriptions',
               'subscriptions.lock', 'dovecot.sieve'}


def unstorable(kind: str, name: str) -> bool:
    """Names a maildir layout has no directory for: refused, nothing
    changes."""
    parts = name.split('/')
    if kind == 'fs':
        return any(c in FS_RESERVED for c in parts)
    if kind == '++':
        # '.' separates the levels in the folder's directory name
        return any('.' in c for c in parts)
    return False


def probe_alphabet():
    R = []   # reads
    for op in ('LIST', 'LSUB'):
        for ref in ('', 'a', 'a/', 'INBOX', 'x', 'd/'):
            for pat in ('*', '%', 'a*', 'a/%', '%/%', '*b', 'inbox', 'INBOX*',
                        'a%b', '*/', '', 'a', '%a', 'a%', '*/*', 'd/%/f',
                        '%/%/%', 'A*', '*x*', 'old'):
                R.append(D(op, ref, pat))
    for n in ['INBOX', 'inbox', 'a', 'a/b', 'c', 'd', 'old', 'zz', 'a/', 'd/e',
              'd/e/f', 'a\nb', 'é', 'cur', 'a/new', 'dovecot-uidlist', '\u0131nbox',
              'a/dovecot-keywords']:
        R.append(D('STATUS', n))
    M = []   # mutations
    for n in HOSTILE:
        M.append(D('CREATE', n))
        M.append(D('DELETE', n))
        M.append(D('SUBSCRIBE', n))
    for a, b in [('a', 'x'), ('a', 'c'), ('a', 'INBOX'), ('a', 'inbox'),
                 ('zz', 'x'), ('INBOX', 'a'), ('INBOX', 'new'), ('a', 'a/x'),
                 ('a', 'd/e'), ('c', 'a'), ('a', 'a'), ('inbox', 'new2'),
                 ('a/b', 'b'), ('a', 'é'), ('a', 'x/y'), ('d', 'a'),
                 ('c', 'd'), ('a', 'a\nb'), ('d/e/f', 'a'), ('a', 'A'),
                 ('cur', 'x'), ('a', 'tmp'), ('a', 'c/cur'), ('a/new', 'y'),
                 # a source that is not there, a target whose superiors
                 # would have to be made
                 ('zz', 'q/r/s'), ('zz', 'a/x/y'), ('zz', 'zz/y'),
                 ('a', '\u0131nbox')]:
        M.append(D('RENAME', a, b))
    for n in ['a', 'zz', 'INBOX']:
        M.append(D('UNSUBSCRIBE', n))
        M.append(D('APPEND', n))
    return R, M


def has_empty_component(name: str) -> bool:
    return any(p == '' for p in name.split('/'))


class Model:
    name = 'c11'

    def __init__(self, kind: str = 'dict') -> None:
        self.kind = kind
        self.params = {'kind': kind}
        self._alpha = driver_alphabet()
        for e in self._alpha:
            e['name'] = name_of(e)

    def alphabet(self):
        return self._alpha

    def new(self):
        if self.kind == 'dict':
            w = DictWorld(users={'alice': ('pw', ())})
        else:
            from ..worlds import MaildirWorld
            w = MaildirWorld(layout=self.kind, users={'alice': ('pw', ())},
                             jail_cheap=True)
        ctx = Ctx(w)
        ctx.extra['hist'] = []
        for si in (0, 1, 2):
            ctx.connect()
            assert ctx.do(si, b'LOGIN alice pw').cond == 'OK'
        assert ctx.do(0, b'APPEND INBOX ' + lit(msg(1))).cond == 'OK'
        m = ns.Namespace()
        ctx.extra['ns'] = m
        self.refresh_ident(ctx, m)
        ctx.steps.clear()
        return ctx

    def enabled(self, ctx):
        return range(len(self._alpha))

    # ---- black-box dump via the third (never selecting) connection -------
    def dump(self, ctx):
        p = 2
        st = ctx.do(p, b'LIST "" *')
        names = {}
        for r in st.untagged('LIST'):
            attrs, delim, raw = r.data
            try:
                nm = mutf7.decode(raw)
            except mutf7.DecodeError:
                nm = ('undecodable', raw)
            names[nm] = frozenset(a.lower() for a in attrs)
        st = ctx.do(p, b'LSUB "" *')
        subs = set()
        for r in st.untagged('LSUB'):
            attrs, delim, raw = r.data
            if any(a.lower() == b'\\noselect' for a in attrs):
                continue     # parent of a subscribed name (RFC 3501 6.3.9)
            try:
                subs.add(mutf7.decode(raw))
            except mutf7.DecodeError:
                subs.add(('undecodable', raw))
        ident = {}
        for nm, attrs in names.items():
            if b'\\noselect' in attrs or not isinstance(nm, str):
                continue
            st = ctx.do(p, render(D('STATUS', nm)))
            rows = st.untagged('STATUS')
            if st.cond == 'OK' and rows:
                d = rows[0].data[1]
                ident[nm] = (d.get('MAILBOXID'), d.get('UIDVALIDITY'),
                             d.get('UIDNEXT'), d.get('MESSAGES'))
            else:
                ident[nm] = ('status-failed', st.cond)
        return names, subs, ident

    def refresh_ident(self, ctx, m: ns.Namespace):
        names, subs, ident = self.dump(ctx)
        m.ident = ident
        return names, subs, ident

    # ---- one command on server + model -------------------------------------
    def exec_cmd(self, ctx, d):
        out = []
        m: ns.Namespace = ctx.extra['ns']
        site = name_of(d)
        op = d['op']
        names = d['names']
        st = ctx.do(d.get('s', 0), render(d))
        for h in ctx.harness_errors:
            raise RuntimeError(h)
        if st.tagged is None:
            out.append(Violation('no-tagged-response', site,
                                 repr(st.raw[-100:])))
            return out
        cond = st.cond
        if op in ('LIST', 'LSUB'):
            return self.check_list(ctx, d, st, out)
        if op == 'STATUS':
            n = names[0]
            if not m.exists(n) and cond != 'NO' and \
                    not has_empty_component(n):
                out.append(Violation('status-missing', site,
                           f'STATUS of missing {n!r} answered {cond}'))
            if m.exists(n) and cond != 'OK':
                out.append(Violation('status-existing', site,
                           f'STATUS of existing {n!r} answered {cond} '
                           f'{st.tagged.text!r}'))
            return out
        if op == 'SELECT':
            return out
        # ---- mutations: predict
        before = (set(m.names), set(m.subscribed), dict(m.ident))
        outside_model = any(has_empty_component(n) for n in names)
        exp_conds = {'OK'}
        strict = True
        new_names = set(m.names)
        new_subs = set(m.subscribed)
        ident_moves = {}            # new name -> old name
        if op == 'CREATE':
            n = names[0]
            if ns.is_inbox(n) or m.exists(n):
                exp_conds = {'NO'}
            elif n.endswith('/') and n != '/':
                exp_conds = {'OK', 'NO'}
                strict = False
            elif unstorable(self.kind, n):
                # with nested directories these names are the directories a
                # maildir consists of: they cannot be mailboxes
                exp_conds = {'NO'}
            elif self.kind != 'dict' and '/' in n and (not all(
                    m.exists('/'.join(n.split('/')[:k]))
                    for k in range(1, n.count('/') + 1))
                    or ns.is_inbox(n.split('/')[0])):
                # the maildir layouts want superior folders to exist
                # (creating superior names is a SHOULD in RFC 3501 6.3.3)
                exp_conds = {'OK', 'NO'}
                if cond == 'OK':
                    new_names.add(n)
                strict = False
            else:
                new_names.add(n)
        elif op == 'DELETE':
            n = names[0]
            if ns.is_inbox(n) or not m.exists(n):
                exp_conds = {'NO'}
            elif m.inferiors(n):
                exp_conds = {'OK', 'NO'}
                new_names.discard(n)
                strict = False
            else:
                new_names.discard(n)
        elif op == 'RENAME' and names[0] == names[1] and \
                m.exists(names[0]) and not ns.is_inbox(names[0]):
            # onto itself: refusing (the target exists) or a no-op
            exp_conds = {'OK', 'NO'}
        elif op == 'RENAME':
            a, b = names
            collide = False
            if not ns.is_inbox(a):
                for inf in m.inferiors(a):
                    tgt = b + inf[len(a):]
                    if m.exists(tgt) and not (tgt == inf):
                        collide = True
            if a in m.implied_parents() and not m.exists(b) \
                    and not ns.is_inbox(b) and not collide:
                # renaming a \Noselect placeholder that has inferiors: moving
                # the inferiors or refusing are both admissible
                exp_conds = {'OK', 'NO'}
                strict = False
            elif not m.exists(a) or m.exists(b) or ns.is_inbox(b) \
                    or collide:
                exp_conds = {'NO'}
            elif b.startswith(a + '/') and not ns.is_inbox(a):
                exp_conds = {'OK', 'NO'}      # rename into own subtree
                strict = False
            elif b in m.implied_parents():
                exp_conds = {'OK', 'NO'}      # onto a \Noselect placeholder
                strict = False
            elif ns.is_inbox(a):
                new_names.add(b)
                ident_moves[b] = 'INBOX'
                strict = not m.inferiors('INBOX')
            else:
                for old in [a] + m.inferiors(a):
                    new = b + old[len(a):]
                    new_names.discard(old)
                    new_names.add(new)
                    ident_moves[new] = old
        elif op == 'SUBSCRIBE':
            n = names[0]
            if self.kind != 'dict' and (n != n.strip() or '\r' in n
                                        or '\n' in n):
                # the maildir subscriptions file holds one name per line:
                # a name it cannot hold may be refused
                exp_conds = {'OK', 'NO'}
                if cond == 'OK':
                    new_subs.add(m.canon(n) if m.exists(n) else n)
            elif m.exists(n):
                new_subs.add(m.canon(n))
            else:
                # RFC 3501 6.3.6: the server MAY validate the name; when it
                # answers OK the name is subscribed
                exp_conds = {'OK', 'NO'}
                if cond == 'OK':
                    new_subs.add(n)
        elif op == 'UNSUBSCRIBE':
            new_subs.discard(m.canon(names[0]))
            exp_conds = {'OK', 'NO'}
        elif op == 'APPEND':
            n = names[0]
            if not m.exists(n):
                exp_conds = {'NO'}
        if self.kind != 'dict' and op == 'RENAME' and '/' in names[1] and (
                not all(m.exists('/'.join(names[1].split('/')[:k]))
                        for k in range(1, names[1].count('/') + 1))
                or ns.is_inbox(names[1].split('/')[0])):
            # maildir: the superior folders of the new name must exist
            exp_conds = exp_conds | {'NO'}
        if op == 'RENAME' and unstorable(self.kind, names[1]):
            exp_conds = {'NO'}
            new_names = set(m.names)
            ident_moves = {}
        if outside_model:
            exp_conds = {'OK', 'NO', 'BAD'}
            strict = False
        bad_name = any(('\n' in n or '\r' in n or '\0' in n) for n in names)
        if d['names'] and any(n == '&' for n in names) is False:
            pass
        if cond not in exp_conds:
            if cond == 'BAD' and exp_conds == {'NO'}:
                pass        # refusal either way
            elif self.kind != 'dict' and op == 'RENAME' and \
                    ns.is_inbox(names[0]) and cond == 'NO' and \
                    b'not supported' in (st.tagged.text or b''):
                out.append(Violation(
                    'rename-inbox-unsupported', 'maildir:RENAME INBOX',
                    f'{site}: answered NO {st.tagged.text!r}: the maildir '
                    f'backend cannot rename INBOX'))
            else:
                out.append(Violation('result.condition', site,
                           f'{site}: answered {cond} {st.tagged.text!r}, '
                           f'model admits {sorted(exp_conds)} (names '
                           f'{sorted(m.names)})'))
        names_now, subs_now, ident_now = self.dump(ctx)
        sel_now = {n for n, a in names_now.items()
                   if b'\\noselect' not in a and isinstance(n, str)}
        # an object id identifies one mailbox
        by_id: dict = {}
        for n_, idv in ident_now.items():
            if isinstance(idv, tuple) and idv[0] not in (None,
                                                         'status-failed'):
                by_id.setdefault(idv[0], []).append(n_)
        for oid, ns_ in by_id.items():
            if len(ns_) > 1:
                out.append(Violation(
                    'mailboxid-shared', 'two-names-one-id',
                    f'{site}: STATUS reports MAILBOXID {oid!r} for the '
                    f'different mailboxes {sorted(ns_)}'))
        if cond in ('NO', 'BAD'):
            # refused: nothing changes
            exp_sel = before[0] | {'INBOX'}
            if sel_now != exp_sel or ident_now != before[2]:
                out.append(Violation('state.changed-on-refusal', site,
                           f'{site}: answered {cond} but namespace changed: '
                           f'{sorted(exp_sel)} -> {sorted(sel_now)}'))
            self.check_subs(subs_now, before[1], sel_now, site, out)
        elif strict and cond == 'OK':
            exp_sel = new_names | {'INBOX'}
            if sel_now != exp_sel:
                out.append(Violation('state.names', site,
                           f'{site}: names now {sorted(map(str, sel_now))}, '
                           f'model {sorted(exp_sel)}'))
            else:
                # identities: messages, UIDs, UIDVALIDITY travel with RENAME;
                # everything else keeps its identity
                for n in sorted(exp_sel):
                    old = ident_moves.get(n)
                    if old is not None:
                        want = before[2].get(old)
                        if ident_now.get(n) != want:
                            out.append(Violation('state.rename-identity', site,
                                       f'{site}: {n!r} has {ident_now.get(n)}'
                                       f', {old!r} had {want}'))
                    elif n in before[2] and not (
                            op == 'RENAME' and n == 'INBOX'
                            and ns.is_inbox(names[0])) and not (
                            op == 'APPEND' and n == m.canon(names[0])):
                        if ident_now.get(n) != before[2][n]:
                            out.append(Violation('state.identity', site,
                                       f'{site}: untouched mailbox {n!r} '
                                       f'changed {before[2][n]} -> '
                                       f'{ident_now.get(n)}'))
                if op == 'RENAME' and ns.is_inbox(names[0]):
                    if ident_now.get('INBOX', (0, 0, 0, 1))[3] != 0:
                        out.append(Violation('state.inbox-not-empty', site,
                                   f'{site}: INBOX after rename: '
                                   f'{ident_now.get("INBOX")}'))
            self.check_subs(subs_now, new_subs, sel_now, site, out)
        # adopt what actually happened (within tolerance)
        m.names = {n for n in sel_now if n != 'INBOX'}
        m.subscribed = new_subs if cond == 'OK' else before[1]
        if op in ('RENAME',) and cond == 'OK':
            # subscriptions do not follow a rename (RFC 3501 6.3.5 is silent;
            # either is admissible): adopt the server's view for renamed names
            m.subscribed = {s for s in m.subscribed}
        m.ident = ident_now
        ctx.extra['subs_seen'] = subs_now
        return out

    def check_subs(self, subs_now, model_subs, existing, site, out):
        got = {s for s in subs_now if isinstance(s, str)}

        class _E:
            @staticmethod
            def exists(n):
                return n in existing
        m = _E
        missing = model_subs - got
        extra = got - model_subs
        for n in sorted(missing):
            out.append(Violation(
                'lsub.missing',
                'deleted-mailbox' if not m.exists(n) else 'existing-mailbox',
                f'{site}: subscribed name {n!r} is not returned by LSUB "" * '
                f'(exists={m.exists(n)})'))
        for n in sorted(extra):
            out.append(Violation(
                'lsub.extra', 'INBOX' if n == 'INBOX' else 'other',
                f'{site}: LSUB "" * returns {n!r} which is not subscribed'))

    def check_list(self, ctx, d, st, out):
        m: ns.Namespace = ctx.extra['ns']
        site = name_of(d)
        op = d['op']
        ref, pat = d['names']
        if st.cond != 'OK':
            out.append(Violation('list.condition', site,
                       f'{site}: answered {st.cond}'))
            return out
        rows = st.untagged(op)
        if pat == '':
            # delimiter query
            if len(rows) != 1 or rows[0].data[1] != b'/':
                out.append(Violation('list.delimiter', site,
                           f'{site}: {st.raw!r}'))
            return out
        got = {}
        for r in rows:
            attrs, delim, raw = r.data
            try:
                nm = mutf7.decode(raw)
            except mutf7.DecodeError:
                out.append(Violation('list.undecodable', site,
                           f'{site}: name {raw!r} is not modified UTF-7'))
                continue
            if nm in got:
                out.append(Violation('list.duplicate', site,
                           f'{site}: {nm!r} listed twice'))
            got[nm] = frozenset(a.lower() for a in attrs)
            if delim != b'/':
                out.append(Violation('list.delimiter', site,
                           f'{site}: delimiter {delim!r}'))
        sub = op == 'LSUB'
        full = ref + pat
        base = m.subscribed if sub else m.all_names()
        must = set()
        for n in base:
            if n == 'INBOX':
                if ns.match(ns.aupper(full), 'INBOX'):
                    must.add(n)
            elif ns.match(full, n):
                must.add(n)
        if sub:
            may = set()
            for n in m.subscribed:
                for a in ns.ancestors(n):
                    if a not in m.subscribed and ns.match(full, a):
                        may.add(a)
        else:
            may = {p for p in m.implied_parents() if ns.match(full, p)}
        for n in sorted(must):
            if n not in got:
                out.append(Violation(
                    'list.missing' if not sub else 'lsub.missing',
                    ('deleted-mailbox' if not m.exists(n)
                     else 'existing-mailbox') if sub else 'pattern',
                    f'{site}: {n!r} matches but is not returned '
                    f'(returned {sorted(got)})'))
            elif b'\\noselect' in got[n] and m.exists(n):
                out.append(Violation('list.noselect-existing', site,
                           f'{site}: existing {n!r} flagged \\Noselect'))
        for n, attrs in sorted(got.items()):
            if n in must:
                continue
            if n in may and (b'\\noselect' in attrs or sub):
                continue
            out.append(Violation(
                'list.extra' if not sub else 'lsub.extra',
                ('INBOX' if n == 'INBOX' else 'other') if sub else 'pattern',
                f'{site}: {n!r} returned but does not '
                f'{"exist/match" if not sub else "match a subscribed name"} '
                f'(model must={sorted(must)}, may={sorted(may)})'))
        return out

    def apply(self, ctx, i):
        ctx.extra['hist'].append(i)
        return self.exec_cmd(ctx, self._alpha[i])

    def key(self, ctx):
        m = ctx.extra['ns']
        if self.kind != 'dict':
            # real files: no state abstraction, histories are not merged
            return (tuple(ctx.extra['hist']), tuple(sorted(m.names)))
        return (dict_world_key(ctx.world), tuple(sorted(m.names)),
                tuple(sorted(m.subscribed)))

    def outcome(self, ctx):
        return ctx.last.summary() if ctx.last else None

    def probe(self, ctx):
        return []

    def close(self, ctx):
        ctx.close()

    def show_last(self, ctx):
        ctx.show_last()


_M = None
_R = None
_MU = None


# findings that are the same on every backend keep their site
_SHARED_SITES = {('lsub.extra', 'INBOX'), ('lsub.missing', 'deleted-mailbox')}


def _prefix(m, v):
    if m.kind != 'dict' and (v['rule'], v['site']) not in _SHARED_SITES \
            and not v['site'].startswith('maildir:'):
        v['site'] = m.kind + ':' + v['site']


def _level2(history):
    m: Model = _M
    out = []
    evals = 0
    ctx = replay_hist(m, history)
    try:
        for d in _R:
            vs = m.exec_cmd(ctx, d)
            evals += 1
            for v in vs:
                v['replay'] = {'model': 'c11', 'params': m.params,
                               'history': list(history), 'probe': d}
                _prefix(m, v)
            out += vs
    finally:
        m.close(ctx)
    for d in _MU:
        ctx = replay_hist(m, history)
        try:
            vs = m.exec_cmd(ctx, d)
            evals += 1
            for v in vs:
                v['replay'] = {'model': 'c11', 'params': m.params,
                               'history': list(history), 'probe': d}
                _prefix(m, v)
            out += vs
        finally:
            m.close(ctx)
    return out, evals


def _plan(kind, depth, cap, *, tier, seed, jobs, progress, t0):
    global _M, _R, _MU
    m = Model(kind)
    res = bfs(m, depth, jobs=jobs, seed=seed, progress=progress)
    if res.errors:
        print(res.errors[0])
        raise RuntimeError('harness error during exploration')
    violations = list(res.violations)
    for v in violations:
        _prefix(m, v)
    _M = m
    _R, _MU = probe_alphabet()
    hist = sorted(res.state_histories, key=lambda h: (len(h), h))
    capped = len(hist) > cap
    hist = hist[:cap]
    evals = 0
    njobs = jobs or min(16, os.cpu_count() or 1)
    with mp.get_context('fork').Pool(njobs) as pool:
        for k, (vs, ev) in enumerate(
                pool.imap_unordered(_level2, hist, chunksize=1)):
            violations += vs
            evals += ev
            if progress and k % 50 == 0:
                print(f'  level2[{kind}]: {k}/{len(hist)} states, {evals} '
                      f'probes, {len(violations)} violations, '
                      f't={time.perf_counter() - t0:.0f}s', flush=True)
    c = res.coverage(m)
    cov = {'backend': kind, 'depth': depth,
           **{k: c[k] for k in ('states', 'depth_completed',
                                'frontier_sizes', 'state_cap_hit')}}
    cov['transitions'] = c['transitions'] + evals
    cov['probe_executions'] = evals
    cov['states_probed'] = len(hist)
    cov['states_probed_capped'] = capped
    cov['samples'] = [[e['name'] for e in s] for s in c['samples'][:3]]
    return violations, cov, m


def run(*, tier, seed, jobs, progress, opts):
    from ..worlds import scratch_parent
    t0 = time.perf_counter()
    if 'depth' in opts:
        plans = [(opts.get('kind', 'dict'), int(opts['depth']),
                  int(opts.get('max_states', 100000)))]
    elif tier == 'quick':
        plans = [('dict', 3, 250), ('++', 3, 14), ('fs', 2, 14)]
    else:
        plans = [('dict', 4, 100000), ('++', 3, 200), ('fs', 3, 200)]
    violations = []
    cov = {'plans': [], 'states': 0, 'transitions': 0}
    with scratch_parent():
        for kind, depth, cap in plans:
            vs, c, m = _plan(kind, depth, cap, tier=tier, seed=seed,
                             jobs=jobs, progress=progress, t0=t0)
            violations += vs
            cov['plans'].append(c)
            cov['states'] += c['states']
            cov['transitions'] += c['transitions']
    # E7: two sessions, one namespace command each, on one maildir; every
    # schedule of their filesystem calls; serial-order oracle
    if 'depth' not in opts:
        from . import c11mt
        mtc = {'pairs': 0, 'executions': 0, 'distinct_outcomes': 0,
               'by_preemptions': {}}
        with scratch_parent(), \
                mp.get_context('fork').Pool(jobs or 16) as pool:
            for st in pool.imap_unordered(c11mt.task, c11mt.tasks(tier),
                                          chunksize=1):
                if 'error' in st:
                    raise RuntimeError(f'E7 harness error: {st}')
                mtc['pairs'] += 1
                mtc['executions'] += st['executions']
                mtc['distinct_outcomes'] += st['outcomes']
                for k_, n in st['by_preemptions'].items():
                    mtc['by_preemptions'][str(k_)] = \
                        mtc['by_preemptions'].get(str(k_), 0) + n
                violations += st['violations']
        cov['maildir_threads'] = mtc
        cov['transitions'] += mtc['executions']
    cov['traces_validated_against_impl'] = cov['transitions']
    cov['driver_alphabet'] = [e['name'] for e in m.alphabet()]
    cov['probe_reads'] = len(_R)
    cov['probe_mutations'] = len(_MU)
    cov['samples'] = cov['plans'][0]['samples'] + \
        [name_of(p) for p in (_R + _MU)[::41]]
    cov['exhaustive'] = not any(c['states_probed_capped'] and
                                c['backend'] == 'dict' for c in cov['plans'])
    cov['rule'] = ('per backend - level 1: BFS over driver sequences <= depth '
                   '(dict: canonical-state dedup; maildir: real files, no '
                   'dedup); level 2: every LIST/LSUB/STATUS probe and every '
                   'hostile CREATE/DELETE/RENAME/SUBSCRIBE probe in every '
                   'reached state (shortest histories first when capped: '
                   'maildir quick probes the states within 1 command)')
    return finish(PROP, tier=tier, seed=seed, level='model_checking',
                  coverage=cov, violations=violations, t0=t0, assumptions=[
                      'tolerances of DESIGN.md section 3 C11',
                      'names with empty components are outside the model',
                      'maildir: names the filesystem layout cannot store may '
                      'be refused'])


def replay(rec):
    from ..worlds import scratch_parent
    with scratch_parent():
        return _replay(rec)


def _replay(rec):
    r = rec['replay']
    if r.get('mt11'):
        from . import c11mt
        names = tuple(r['names'])
        ser = [c11mt.execute(r['layout'], names, serial=o)[1][:2]
               for o in ((0, 1), (1, 0))]
        ex, (conds, obs, stuck) = c11mt.execute(r['layout'], names,
                                                prefix=r['prefix'])
        bad = bool(stuck) or (conds, obs) not in ser
        print('answers', conds, 'namespace', obs, 'stuck', stuck)
        print('serial orders', ser)
        if bad:
            print('VIOLATION-REPLAYED', rec.get('rule'), rec.get('site'))
        return 1 if bad else 0
    m = Model(**(r.get('params') or {}))
    if 'probe' in r:
        ctx = replay_hist(m, r['history'])
        print('HISTORY', [m.alphabet()[i]['name'] for i in r['history']])
        d = r['probe']
        d['names'] = [x if isinstance(x, str) else x.decode('latin1')
                      for x in d['names']]
        viols = m.exec_cmd(ctx, d)
        ctx.show_last()
        m.close(ctx)
    else:
        viols = run_history(m, r['history'])
    for v in viols:
        print('VIOLATION-REPLAYED', v['rule'], v['site'], v['msg'])
    return 1 if viols else 0
