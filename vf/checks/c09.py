"""C09 -- authentication and authorisation are sound.

BFS over authentication events on one connection (plus reconnect and an
out-of-band password change) for {TLS offered, not} x {local, remote peer},
IMAP and ManageSieve, against a reference auth model; the identity a
connection acts as is revealed by marker mailboxes / scripts."""
from __future__ import annotations

import base64
import dataclasses
import time

from ..driver import Ctx
from ..explore import bfs, run_history
from ..report import Violation, finish
from ..worlds import DictWorld, _hash_context

PROP = 'C09'

USERS = {'alice': ('pw', ()), 'bob': ('pw2', ()), 'root': ('rootpw', ('admin',)),
         # a different account whose name differs from alice's only in case
         'Alice': ('pw3', ())}


def b64(x: bytes) -> bytes:
    return base64.b64encode(x)


def plain(authz: bytes, authc: bytes, pw: bytes) -> bytes:
    return b64(authz + b'\0' + authc + b'\0' + pw)


def build_alphabet(proto):
    A = []

    def E(name, **kw):
        A.append(dict(name=name, **kw))
    big = b'x' * 1000
    creds = [
        ('good-alice', b'alice', b'pw'),
        ('wrongpw', b'alice', b'nope'),
        ('emptypw', b'alice', b''),
        ('unknown-user', b'mallory', b'pw'),
        ('good-root', b'root', b'rootpw'),
        ('8bit', b'alice', b'p\xffw'),
        ('long', b'alice', big),
        ('old-alice-pw', b'alice', b'pw'),      # same as good until PWCHANGE
        ('new-alice-pw', b'alice', b'pw-new'),
        ('bobs-pw-for-alice', b'alice', b'pw2'),
        ('case-user', b'ALICE', b'pw'),
        # an account without a password must never verify, whatever the hash
        ('nopw-empty', b'nopw', b''),
        ('nopw-none', b'nopw', b'None'),
    ]
    if proto == 'imap':
        for n, u, p in creds:
            if n in ('old-alice-pw',):
                continue
            uq = b'"' + u + b'"'
            pq = b'{%d+}\r\n%s' % (len(p), p)
            E('LOGIN-' + n, kind='login', line=b'LOGIN ' + uq + b' ' + pq,
              authc=u, pw=p, authz=u)
    sasl = [
        ('good-alice', plain(b'', b'alice', b'pw'), b'alice', b'pw', b'alice'),
        ('good-alice-authz-self', plain(b'alice', b'alice', b'pw'), b'alice',
         b'pw', b'alice'),
        ('wrongpw', plain(b'', b'alice', b'nope'), b'alice', b'nope', b'alice'),
        ('alice-as-bob', plain(b'bob', b'alice', b'pw'), b'alice', b'pw',
         b'bob'),
        ('alice-as-root', plain(b'root', b'alice', b'pw'), b'alice', b'pw',
         b'root'),
        ('root-as-bob', plain(b'bob', b'root', b'rootpw'), b'root', b'rootpw',
         b'bob'),
        ('root-as-unknown', plain(b'mallory', b'root', b'rootpw'), b'root',
         b'rootpw', b'mallory'),
        ('root-wrongpw-as-bob', plain(b'bob', b'root', b'bad'), b'root',
         b'bad', b'bob'),
        ('unknown-as-alice', plain(b'alice', b'mallory', b'pw'), b'mallory',
         b'pw', b'alice'),
        ('alice-as-Alice', plain(b'Alice', b'alice', b'pw'), b'alice', b'pw',
         b'Alice'),
        ('ALICE-alices-pw', plain(b'', b'ALICE', b'pw'), b'ALICE', b'pw',
         b'ALICE'),
        ('badb64', b'!!!notbase64', None, None, None),
        ('cancel', b'*', None, None, None),
        ('empty', b'', None, None, None),
        ('no-nul', b64(b'alicepw'), None, None, None),
        ('one-nul', b64(b'alice\0pw'), None, None, None),
        ('10k', plain(b'', b'alice', b'y' * 10000), b'alice', b'y' * 10000,
         b'alice'),
        ('new-alice-pw', plain(b'', b'alice', b'pw-new'), b'alice', b'pw-new',
         b'alice'),
        ('nopw-empty', plain(b'', b'nopw', b''), b'nopw', b'', b'nopw'),
    ]
    for n, resp, authc, pw, authz in sasl:
        if proto == 'imap':
            E('AUTH-PLAIN-' + n, kind='sasl', line=b'AUTHENTICATE PLAIN',
              conts=[resp + b'\r\n'], authc=authc, pw=pw, authz=authz)
        else:
            if n == 'cancel':
                E('AUTH-PLAIN-' + n, kind='sasl', line=b'AUTHENTICATE "PLAIN"',
                  conts=[b'"*"\r\n'], authc=None, pw=None, authz=None)
            else:
                E('AUTH-PLAIN-' + n, kind='sasl',
                  line=b'AUTHENTICATE "PLAIN" {%d+}\r\n%s' % (len(resp), resp),
                  authc=authc, pw=pw, authz=authz)
    if proto == 'imap':
        E('AUTH-LOGIN-good', kind='sasl', line=b'AUTHENTICATE LOGIN',
          conts=[b64(b'alice') + b'\r\n', b64(b'pw') + b'\r\n'],
          authc=b'alice', pw=b'pw', authz=b'alice')
        E('AUTH-LOGIN-wrong', kind='sasl', line=b'AUTHENTICATE LOGIN',
          conts=[b64(b'alice') + b'\r\n', b64(b'zz') + b'\r\n'],
          authc=b'alice', pw=b'zz', authz=b'alice')
        E('AUTH-LOGIN-cancel2', kind='sasl', line=b'AUTHENTICATE LOGIN',
          conts=[b64(b'alice') + b'\r\n', b'*\r\n'],
          authc=None, pw=None, authz=None)
        E('AUTH-BOGUS', kind='sasl', line=b'AUTHENTICATE BOGUS',
          authc=None, pw=None, authz=None)
        E('STARTTLS', kind='starttls', line=b'STARTTLS')
        # challenge-response (offered only in the 'cram' configuration; the
        # digest is computed from the server's challenge)
        for n, u, p in (('good-alice', b'alice', b'pw'),
                        ('wrongpw', b'alice', b'nope'),
                        ('nopw-empty', b'nopw', b''),
                        ('unknown-user', b'mallory', b'pw')):
            E('AUTH-CRAM-' + n, kind='cram', line=b'AUTHENTICATE CRAM-MD5',
              authc=u, pw=p, authz=u)
    else:
        E('AUTH-BOGUS', kind='sasl', line=b'AUTHENTICATE "BOGUS"',
          authc=None, pw=None, authz=None)
        E('STARTTLS', kind='starttls', line=b'STARTTLS')
        E('UNAUTHENTICATE', kind='unauth', line=b'UNAUTHENTICATE')
    E('RECONNECT', kind='reconnect')
    E('PWCHANGE', kind='pwchange')
    return A


class AuthModel:
    def __init__(self, tls_offered, local, variant='stock') -> None:
        self.variant = variant
        self.pw = {u: p[0].encode() for u, p in USERS.items()}
        self.roles = {u: set(p[1]) for u, p in USERS.items()}
        self.tls_offered = tls_offered
        self.local = local
        self.reset_conn()
        self.changed = False
        # credentials that have verified at least once in this world: kept in
        # the key so that histories which could have warmed a cache are not
        # merged with those that have not
        self.used_ok: set = set()

    def reset_conn(self):
        self.identity = None
        self.tls_done = False

    @property
    def plain_offered(self):
        if self.variant == 'cram':
            return False       # only CRAM-MD5 is configured
        return (not self.tls_offered) or self.local or self.tls_done

    @property
    def cram_offered(self):
        return self.variant == 'cram'

    def verify(self, authc, pw):
        if authc is None:
            return False
        try:
            u = authc.decode('utf-8')
        except UnicodeDecodeError:
            return False
        return u in self.pw and self.pw[u] == pw

    def admissible(self, ev):
        """-> set of admissible identities after the event (None = stays
        unauthenticated).  'only when': refusing is always admissible."""
        if not self.verify(ev['authc'], ev['pw']):
            return {None}
        if ev['kind'] == 'cram':
            if not self.cram_offered:
                return {None}
        elif not self.plain_offered:
            return {None}
        authc = ev['authc'].decode()
        authz = ev['authz'].decode() if ev['authz'] else authc
        # acting as the verified authenticating user is always admissible
        # (a server may ignore the requested authorisation identity); acting
        # as anybody else needs the admin role
        if authz != authc and 'admin' in self.roles[authc] \
                and authz in self.pw:
            return {None, authz, authc}
        return {None, authc}

    def key(self):
        return (self.identity, self.tls_done, self.changed,
                tuple(sorted(self.used_ok)))


class Model:
    name = 'c09'

    def __init__(self, proto, tls, local, variant='stock') -> None:
        self.proto = proto
        self.tls = tls
        self.local = local
        # stock: default mechanisms, salted hash; cleartext: default
        # mechanisms, passwords stored in clear (what challenge-response
        # mechanisms need); cram: clear passwords, CRAM-MD5 the only mechanism
        self.variant = variant
        self.params = {'proto': proto, 'tls': tls, 'local': local,
                       'variant': variant}
        self._alpha = build_alphabet(proto)

    def alphabet(self):
        return self._alpha

    def peer(self):
        return '127.0.0.1' if self.local else '1.2.3.4'

    def new(self):
        if self.variant == 'maildir':
            # the maildir backend: users, passwords and roles live in
            # passwd/shadow/group style files
            from ..worlds import MaildirWorld
            w = MaildirWorld(layout='++', users=USERS, jail_cheap=True)
        elif self.variant == 'stock':
            w = DictWorld(users=USERS, tls_enabled=self.tls)
        else:
            from pysasl.hashing import Cleartext
            w = DictWorld(users=USERS, tls_enabled=self.tls,
                          hash_context=Cleartext())
        if self.variant == 'cram':
            from pysasl import SASLAuth
            cfg = w.config
            cfg.__class__ = type('CramOnly', (cfg.__class__,), {
                'tls_auth': property(
                    lambda self_: SASLAuth.named([b'CRAM-MD5']))})
        from pymap.user import UserMetadata
        ctx = Ctx(w)
        ctx.extra['m'] = AuthModel(self.tls, self.local, self.variant)
        if self.variant == 'maildir':
            from pymap.backend.maildir import Identity
            login = w.backend.login
            ident = Identity(w.config, login.tokens, 'nopw', None, {'admin'})
            w.loop.run_coro(ident.set(UserMetadata(
                w.config, 'nopw', password=None, roles=frozenset())),
                horizon=30.0)
            # markers: every user creates a mailbox named after it
            for u, (pw, _) in USERS.items():
                c = ctx.connect(peer='127.0.0.1')
                assert ctx.do(c, b'LOGIN %s %s' % (u.encode(),
                                                   pw.encode())).cond == 'OK'
                assert ctx.do(c, b'CREATE mark-' + u.encode()).cond == 'OK'
                ctx.do(c, b'LOGOUT')
            self.connect(ctx)
            return ctx
        w.backend.login.users_dict['nopw'] = UserMetadata(
            w.config, 'nopw', password=None, roles=frozenset())
        # markers: every user's store gets a mailbox / script named after it
        from pymap.backend.dict.mailbox import MailboxSet
        from pymap.backend.dict.filter import FilterSet
        for u in USERS:
            ms, fs = MailboxSet(), FilterSet()
            w.loop.run_coro(ms.add_mailbox('mark-' + u))
            w.loop.run_coro(fs.put('mark-' + u, b'keep;\r\n'))
            w.config.set_cache[u] = (ms, fs)
        self.connect(ctx)
        return ctx

    def connect(self, ctx):
        if self.proto == 'imap':
            ctx.extra['c'] = ctx.connect(peer=self.peer())
        else:
            s = ctx.world.connect(peer=self.peer(), proto='sieve')
            ctx.shadows.append(None)
            ctx.extra['c'] = len(ctx.world.sessions) - 1
        ctx.extra['greeting'] = bytes(ctx.session(ctx.extra['c']).raw)

    def enabled(self, ctx):
        m = ctx.extra['m']
        out = []
        for i, e in enumerate(self._alpha):
            if e['kind'] == 'pwchange' and m.changed:
                continue
            out.append(i)
        return out

    # ---- who does the connection act as? ----------------------------------
    def glass_identity(self, ctx):
        s = ctx.session(ctx.extra['c'])
        if self.proto == 'imap':
            st = s.state
            if st is None or st._session is None:
                return None
            return st._session.owner
        # sieve: find the ManageSieveConnection in the task's coroutine chain
        coro = s.task.get_coro() if not s.task.done() else None
        n = 0
        while coro is not None and n < 30:
            n += 1
            fr = getattr(coro, 'cr_frame', None)
            if fr is not None and 'self' in fr.f_locals and \
                    hasattr(fr.f_locals['self'], '_state') and \
                    hasattr(fr.f_locals['self'], 'capabilities'):
                fs = fr.f_locals['self']._state
                return None if fs is None else fs.owner.decode()
            coro = getattr(coro, 'cr_await', None)
        return None

    def black_identity(self, ctx):
        """Ask the connection itself (on the discarded world)."""
        c = ctx.extra['c']
        s = ctx.session(c)
        if s.done:
            return None
        if self.proto == 'imap':
            st = ctx.do(c, b'LIST "" *')
            if st.cond != 'OK':
                return None
            marks = [r.data[2] for r in st.untagged('LIST')
                     if r.data[2].startswith(b'mark-')]
            return tuple(sorted(m[5:].decode() for m in marks))
        n0 = len(s.responses)
        ctx.world.send(s, b'LISTSCRIPTS\r\n')
        rs = s.responses[n0:]
        if not any(r[0] == 'status' and r[1] == 'OK' for r in rs):
            return None
        return tuple(sorted(r[1][0][5:].decode() for r in rs
                            if r[0] == 'data' and r[1][0].startswith(b'mark-')))

    def sieve_cmd(self, ctx, line, conts=()):
        s = ctx.session(ctx.extra['c'])
        n0 = len(s.responses)
        ctx.world.send(s, line + b'\r\n')
        for ch in conts:
            new = s.responses[n0:]
            if any(r[0] == 'status' for r in new) or s.done:
                break
            ctx.world.send(s, ch)
        new = s.responses[n0:]
        if s.parse_error is not None and s.parse_error.kind == 'grammar':
            raise RuntimeError(f'unparseable sieve output {s.parse_error}')
        st = [r for r in new if r[0] == 'status']
        return (st[-1][1] if st else None), new

    def apply(self, ctx, i):
        e = self._alpha[i]
        m: AuthModel = ctx.extra['m']
        out = []
        kind = e['kind']
        site = f"{self.proto}:{e['name']}" + \
            ('/tls-offered' if self.tls else '') + \
            ('/local' if self.local else '/remote') + \
            ('/tlsdone' if m.tls_done else '') + \
            ('/authed' if m.identity else '') + \
            ('' if self.variant == 'stock' else '/' + self.variant)
        ctx.extra['last'] = (e['name'], None)
        if kind == 'reconnect':
            c = ctx.extra['c']
            s = ctx.session(c)
            if not s.done:
                if self.proto == 'imap':
                    ctx.do(c, b'LOGOUT')
                else:
                    self.sieve_cmd(ctx, b'LOGOUT')
            self.connect(ctx)
            m.reset_conn()
            return out
        if kind == 'pwchange':
            from pymap.user import UserMetadata  # noqa: F401
            login = ctx.world.backend.login
            if self.variant == 'maildir':
                from pymap.backend.maildir import Identity
                cfg = ctx.world.config
                ident = Identity(cfg, login.tokens, 'alice', None, {'admin'})
                h = cfg.hash_context.hash(cfg.password_prep('pw-new'))
                ctx.world.loop.run_coro(ident.set(UserMetadata(
                    cfg, 'alice', password=h, roles=frozenset())),
                    horizon=30.0)
                m.pw['alice'] = b'pw-new'
                m.changed = True
                return out
            cur = login.users_dict['alice']
            new_hash = ctx.world.config.hash_context.hash(
                ctx.world.config.password_prep('pw-new'))
            login.users_dict['alice'] = dataclasses.replace(
                cur, password=new_hash)
            m.pw['alice'] = b'pw-new'
            m.changed = True
            return out
        c = ctx.extra['c']
        s = ctx.session(c)
        if s.done:
            return out
        before = m.identity
        if self.proto == 'imap':
            if kind == 'cram':
                st = ctx.do(c, e['line'])
                ch = [r for r in st.responses if r.kind == 'cont']
                if st.tagged is None and ch:
                    import hmac
                    try:
                        chal = base64.b64decode(ch[-1].text or b'')
                    except Exception:       # noqa: BLE001
                        chal = b''
                    dig = hmac.new(e['pw'], chal, 'md5').hexdigest().encode()
                    st = ctx.more(c, b64(e['authc'] + b' ' + dig) + b'\r\n')
            else:
                st = ctx.do(c, e['line'], e.get('conts', ()))
            for h in ctx.harness_errors:
                raise RuntimeError(h)
            cond = st.cond
            ctx.extra['last'] = (e['name'], st.raw[-200:])
            if st.tagged is None and not s.done:
                out.append(Violation('no-tagged-response', site,
                                     repr(st.raw[-100:])))
        else:
            cond, rs = self.sieve_cmd(ctx, e['line'], e.get('conts', ()))
            ctx.extra['last'] = (e['name'], rs)
        now = self.glass_identity(ctx)
        if kind == 'starttls':
            if cond == 'OK':
                if before is not None:
                    out.append(Violation('starttls-when-authed', site, ''))
                m.tls_done = True
            if now != before:
                out.append(Violation('starttls-changed-identity', site,
                           f'{before} -> {now}'))
            return out
        if kind == 'unauth':
            if cond == 'OK':
                m.identity = None
            if now != m.identity:
                out.append(Violation('unauth-identity', site,
                           f'after UNAUTHENTICATE ({cond}) acting as {now}'))
                m.identity = now
            return out
        # login / sasl
        if before is not None:
            # already authenticated: nothing may change (C05 covers the
            # refusal itself)
            if now != before:
                out.append(Violation('reauth-changed-identity', site,
                           f'{before} -> {now} via {e["name"]}'))
                m.identity = now
            return out
        adm = m.admissible(dict(e, kind=kind))
        if kind == 'login' and not m.plain_offered:
            adm = {None}
        if kind == 'login' and not m.plain_offered and cond == 'OK':
            out.append(Violation('login-while-logindisabled', site,
                       f'plain-text LOGIN accepted although LOGINDISABLED is '
                       f'advertised: {ctx.extra["greeting"]!r}'))
        if (cond == 'OK') != (now is not None):
            out.append(Violation('result-vs-state', site,
                       f'{e["name"]} answered {cond} but the connection acts '
                       f'as {now}'))
        if now not in adm:
            out.append(Violation(
                'not-admissible', site,
                f'{e["name"]}: connection now acts as {now!r}; admissible '
                f'{sorted(map(str, adm))} (authc={e["authc"]!r:.30} '
                f'authz={e["authz"]!r:.30}, verifying='
                f'{m.verify(e["authc"], e["pw"])}, plain offered='
                f'{m.plain_offered})'))
        m.identity = now
        if now is not None:
            m.used_ok.add((e['authc'], e['pw'][:16]))
        return out

    def key(self, ctx):
        s = ctx.session(ctx.extra['c'])
        return (ctx.extra['m'].key(), s.done, self.glass_identity(ctx))

    def outcome(self, ctx):
        return repr(ctx.extra.get('last'))[:300]

    def probe(self, ctx):
        out = []
        m: AuthModel = ctx.extra['m']
        got = self.black_identity(ctx)
        want = None if m.identity is None else (m.identity,)
        if got != want:
            out.append(Violation('probe-identity', f'{self.proto}:probe',
                       f'the connection sees the markers of {got}, model '
                       f'identity {m.identity}'))
        return out

    def close(self, ctx):
        ctx.close()

    def show_last(self, ctx):
        print('   ', ctx.extra.get('last'))


CONFIGS = [('imap', False, False), ('imap', True, False), ('imap', True, True),
           ('sieve', False, False), ('sieve', True, False),
           ('imap', False, True),
           ('imap', False, False, 'cleartext'), ('imap', False, False, 'cram'),
           ('imap', True, False, 'cram'), ('sieve', False, False, 'cleartext'),
           ('imap', False, False, 'maildir')]


def run(*, tier, seed, jobs, progress, opts):
    t0 = time.perf_counter()
    depth = int(opts.get('depth', 4 if tier == 'quick' else 5))
    violations = []
    cov = {'configs': [], 'states': 0, 'transitions': 0,
           'traces_validated_against_impl': 0, 'samples': []}
    auth_ok_states = 0
    from ..worlds import scratch_parent
    for cfg in CONFIGS:
        proto, tls, local = cfg[:3]
        variant = cfg[3] if len(cfg) > 3 else 'stock'
        m = Model(proto, tls, local, variant)
        with scratch_parent():
            res = bfs(m, depth if variant != 'maildir' else min(depth, 3),
                      jobs=jobs, seed=seed, progress=progress)
        if res.errors:
            print(res.errors[0])
            raise RuntimeError('harness error during exploration')
        c = res.coverage(m)
        cov['configs'].append({'proto': proto, 'tls_offered': tls,
                               'local_peer': local, 'variant': variant,
                               'alphabet_size': len(m.alphabet()),
                               **{k: c[k] for k in (
                                   'states', 'transitions', 'depth_completed',
                                   'frontier_sizes')}})
        cov['states'] += c['states']
        cov['transitions'] += c['transitions']
        cov['traces_validated_against_impl'] += c['transitions']
        cov['samples'] += [[e['name'] for e in s] for s in c['samples'][:2]]
        violations += res.violations
    cov['alphabet'] = [e['name'] for e in build_alphabet('imap')]
    cov['exhaustive'] = True
    cov['rule'] = ('all sequences of authentication events up to the depth '
                   'bound per configuration, canonical-state dedup (model '
                   'state + glass-box identity)')
    return finish(PROP, tier=tier, seed=seed, level='model_checking',
                  coverage=cov, violations=violations, t0=t0, assumptions=[
                      'dict backend; users alice, bob, root(admin)',
                      'not granting a proxy identity is admissible',
                      'TLS handshake answered by the mock transport'])


def replay(rec):
    r = rec['replay']
    p = r['params']
    m = Model(p['proto'], p['tls'], p['local'], p.get('variant', 'stock'))
    from ..worlds import scratch_parent
    with scratch_parent():
        viols = run_history(m, r['history'])
    for v in viols:
        print('VIOLATION-REPLAYED', v['rule'], v['site'], v['msg'])
    return 1 if viols else 0
