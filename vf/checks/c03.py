"""C03 -- message bytes are stored and returned verbatim.

Bounded-exhaustive enumeration of byte strings (all concatenations of <= k
tokens from a 14-token alphabet of header / MIME / CR / LF / NUL / 8-bit
fragments, plus length-boundary strings) through APPEND and FETCH on the real
server; byte equality oracles incl. partial ranges, HEADER+TEXT, copies made
by COPY and MOVE, and BODYSTRUCTURE octet counts vs BODY[part]."""
from __future__ import annotations

import multiprocessing as mp
import os
import time

from .. import enum_inputs as E
from .. import respparse
from ..driver import Ctx
from ..explore import _digest
from ..report import Violation, finish
from ..worlds import DictWorld, scratch_parent

PROP = 'C03'


def lit(b):
    return b'{%d+}\r\n%s' % (len(b), b)


def make_world(kind='dict'):
    if kind == 'dict':
        w = DictWorld(users={'alice': ('pw', ())})
    else:
        from ..worlds import MaildirWorld
        w = MaildirWorld(layout=kind, users={'alice': ('pw', ())},
                         jail_cheap=True)
    ctx = Ctx(w)
    ctx.connect()
    assert ctx.do(0, b'LOGIN alice pw').cond == 'OK'
    assert ctx.do(0, b'CREATE Other').cond == 'OK'
    assert ctx.do(0, b'CREATE Third').cond == 'OK'
    assert ctx.do(0, b'SELECT INBOX').cond == 'OK'
    return ctx


def shape(b: bytes) -> str:
    """Mechanical class of a message for finding signatures."""
    tags = []
    if b'\r\n\r\n' not in b and b'\n\n' not in b:
        tags.append('no-separator')
    if not b.endswith(b'\n'):
        tags.append('no-final-newline')
    if b'multipart' in b:
        tags.append('multipart')
    if b'message/rfc822' in b:
        tags.append('rfc822')
    return '+'.join(tags) or 'plain'


def partials(n: int):
    pts = sorted({0, 1, max(n - 1, 0), n, n + 1})
    for o in pts:
        for c in pts:
            if c > 0:
                yield o, c


def check_message(ctx, b: bytes, out, *, copies=True, site_extra=''):
    sh = site_extra + shape(b)

    def bad(rule, msg):
        out.append(Violation(rule, sh, msg, replay={'message': b}))
    st = ctx.do(0, b'APPEND INBOX ' + lit(b))
    if st.cond != 'OK':
        # "for every byte string accepted by APPEND"
        return 'refused'
    items = [b'BODY.PEEK[]', b'RFC822.SIZE', b'BODY.PEEK[HEADER]',
             b'BODY.PEEK[TEXT]', b'BODYSTRUCTURE', b'RFC822.HEADER']
    st = ctx.do(0, b'FETCH * (' + b' '.join(items) + b')')
    if ctx.harness_errors or ctx.session(0).done:
        # the response itself is malformed / the connection died: that is
        # C07's / C06's finding; no byte oracle can be computed
        return 'unparseable'
    rows = st.untagged('FETCH')
    if st.cond != 'OK' or not rows:
        bad('fetch-failed', f'{st.raw[-120:]!r} for message {b!r:.80}')
        return 'failed'
    d = {}
    for r in rows:
        d.update(r.data)
    got = d.get(('BODY', b'', None))
    if got != b:
        bad('body-differs', f'BODY[] returned {got!r:.100} for {b!r:.100}')
    if d.get('RFC822.SIZE') != len(b):
        bad('size-differs', f'RFC822.SIZE {d.get("RFC822.SIZE")} for '
            f'{len(b)} bytes {b!r:.80}')
    # the size asked for on its own (a backend may answer it without loading
    # the content) and through the FAST macro
    for items2 in (b'(RFC822.SIZE)', b'FAST'):
        s2 = ctx.do(0, b'FETCH * ' + items2)
        for r in s2.untagged('FETCH'):
            if 'RFC822.SIZE' in r.data and r.data['RFC822.SIZE'] != len(b):
                bad('size-differs', f'FETCH {items2.decode()}: RFC822.SIZE '
                    f'{r.data["RFC822.SIZE"]} for {len(b)} bytes {b!r:.80}')
    h = d.get(('BODY', b'HEADER', None)) or b''
    t = d.get(('BODY', b'TEXT', None)) or b''
    if h + t != b:
        bad('header-plus-text', f'HEADER {h!r:.60} + TEXT {t!r:.60} != '
            f'{b!r:.100}')
    # partials: the response names only the origin, so one FETCH per count
    pts = sorted({0, 1, max(len(b) - 1, 0), len(b), len(b) + 1})
    stop = False
    for c in pts:
        if c == 0 or stop:
            continue
        sp = ctx.do(0, b'FETCH * (' + b' '.join(
            b'BODY.PEEK[]<%d.%d>' % (o, c) for o in pts) + b')')
        if ctx.harness_errors or ctx.session(0).done:
            return 'unparseable'
        dp = {}
        for r in sp.untagged('FETCH'):
            dp.update(r.data)
        for o in pts:
            g = dp.get(('BODY', b'', o))
            want = b[o:o + c]
            if (g or b'') != want:
                bad('partial-differs', f'BODY[]<{o}.{c}> returned {g!r:.60}, '
                    f'want {want!r:.60} of {b!r:.80}')
                stop = True
                break
    # several ranges with one origin in one FETCH: each is answered (the
    # items carry the same name, so compare as a multiset)
    if not stop and len(b) >= 2:
        for o in (0, 1):
            cs = sorted({1, len(b) - 1, len(b) + 1} - {0})
            sp = ctx.do(0, b'FETCH * (' + b' '.join(
                b'BODY.PEEK[]<%d.%d>' % (o, c) for c in cs) + b')')
            if ctx.harness_errors or ctx.session(0).done:
                return 'unparseable'
            gotm = sorted(v or b'' for r in sp.untagged('FETCH')
                          for k, v in r.data['_pairs']
                          if k == ('BODY', b'', o))
            wantm = sorted(b[o:o + c] for c in cs)
            if gotm != wantm:
                bad('partial-differs', f'FETCH (' + ' '.join(
                    f'BODY[]<{o}.{c}>' for c in cs) + f') returned '
                    f'{gotm!r:.100}, want {wantm!r:.100}')
                break
    # BODYSTRUCTURE octets vs BODY[part]
    bs = d.get('BODYSTRUCTURE')
    if bs is not None:
        parts = respparse.body_parts(bs)
        paths = []

        def walk(info_map, prefix):
            for path, info in info_map.items():
                if 'octets' in info:
                    paths.append((prefix + path, info))
                if 'embedded' in info:
                    pass
        walk(parts, ())
        req = []
        for path, info in paths:
            if any(x == 'msg' for x in path):
                continue
            sec = b'.'.join(b'%d' % x for x in path) or b'1'
            req.append((sec, info))
        if req:
            st2 = ctx.do(0, b'FETCH * (' + b' '.join(
                b'BODY.PEEK[' + s + b']' for s, _ in req) + b')')
            d2 = {}
            for r in st2.untagged('FETCH'):
                d2.update(r.data)
            for sec, info in req:
                data = d2.get(('BODY', sec, None))
                n = len(data or b'')
                if n != info['octets']:
                    kind = 'single-part' if sec == b'1' and \
                        () in parts and 'octets' in parts[()] else 'sub-part'
                    out.append(Violation(
                        'bodystructure-octets', kind,
                        f'BODYSTRUCTURE announces {info["octets"]} octets for '
                        f'part {sec.decode()}, BODY[{sec.decode()}] returns '
                        f'{n} bytes; message {b!r:.100}',
                        replay={'message': b}))
    if copies:
        for verb, dest in ((b'COPY', b'Other'), (b'MOVE', b'Third')):
            stc = ctx.do(0, verb + b' * ' + dest)
            if stc.cond != 'OK':
                bad('copy-failed', f'{verb!r} -> {stc.raw[-80:]!r}')
                continue
            se = ctx.do(0, b'EXAMINE ' + dest)
            sf = ctx.do(0, b'FETCH * (BODY.PEEK[] RFC822.SIZE)')
            dd = {}
            for r in sf.untagged('FETCH'):
                dd.update(r.data)
            if dd.get(('BODY', b'', None)) != b or \
                    dd.get('RFC822.SIZE') != len(b):
                bad('copy-differs', f'after {verb.decode()}: BODY[] '
                    f'{dd.get(("BODY", b"", None))!r:.80} size '
                    f'{dd.get("RFC822.SIZE")} for {b!r:.80}')
            ctx.do(0, b'SELECT INBOX')
    return 'ok'


_STRINGS = None


def _work(args):
    lo, hi, copies = args[:3]
    kind = args[3] if len(args) > 3 else 'dict'
    pre = '' if kind == 'dict' else kind + ':'
    out = []
    n = 0
    refused = 0
    skipped = []
    make = lambda: make_world(kind)      # noqa: E731
    ctx = make()
    try:
        for i in range(lo, hi):
            if (i - lo) % 150 == 149:
                ctx.close()
                ctx = make()
            r = check_message(ctx, _STRINGS[i], out, copies=copies,
                              site_extra=pre)
            n += 1
            if r == 'refused':
                refused += 1
            if r == 'unparseable' or ctx.harness_errors \
                    or ctx.session(0).done:
                skipped.append(i)
                ctx.close()
                ctx = make()
    finally:
        ctx.close()
    return out, n, refused, len(skipped)


def boundary_strings():
    out = []
    for n in (4095, 4096, 4097, 65535, 65536, 65537):
        out.append(b'A: b\r\n\r\n' + b'x' * (n - 8))
        out.append(b'x' * n)
        out.append((b'line\r\n' * (n // 6 + 1))[:n])
    return out


def run(*, tier, seed, jobs, progress, opts):
    global _STRINGS
    t0 = time.perf_counter()
    k = int(opts.get('k', 4 if tier == 'quick' else 5))
    strings = [m for m in E.token_messages(k) if m]
    b0 = len(strings)
    strings += boundary_strings() + [m for m in E.bomb_messages()
                                     if m and len(m) < 60000][:30]
    _STRINGS = strings
    n = len(strings)
    njobs = jobs or min(16, os.cpu_count() or 1)
    chunk = max(100, n // (njobs * 6))
    # copies for every string up to 2 tokens + a hash-selected tenth beyond
    small = sum(1 for _ in E.token_messages(2))
    tasks = []
    for lo in range(0, n, chunk):
        tasks.append((lo, min(n, lo + chunk), lo < small or tier != 'quick'))
    # the maildir backend (real files): all strings up to km tokens
    km = int(opts.get('km', 3 if tier == 'quick' else 4))
    n_m = sum(1 for m in E.token_messages(km) if m)
    mplans = [('++', n_m)] if tier == 'quick' else \
        [('++', n_m), ('fs', sum(1 for m in E.token_messages(3) if m))]
    if opts.get('backend') == 'dict':
        mplans = []
    if opts.get('backend') == 'maildir':
        tasks = []
    mcount = 0
    for layout, cnt in mplans:
        step = max(50, cnt // (njobs * 4))
        for lo in range(0, cnt, step):
            tasks.append((lo, min(cnt, lo + step), lo < small, layout))
        # the length-boundary strings too
        tasks.append((b0, b0 + 18, False, layout))
        mcount += cnt + 18
    violations = []
    total = refused = skipped = 0
    with scratch_parent(), mp.get_context('fork').Pool(njobs) as pool:
        for vs, c, r, sk in pool.imap_unordered(_work, tasks):
            violations += vs
            total += c
            refused += r
            skipped += sk
    cov = {'evaluations': total, 'distinct_nontrivial': len(set(strings)),
           'tokens': [repr(t) for t in E.TOKENS[:-1]], 'max_tokens': k,
           'refused_by_append': refused,
           'maildir': {'plans': [list(p) for p in mplans],
                       'max_tokens': km, 'messages': mcount},
           'skipped_because_response_unparseable_or_connection_died': skipped,
           'partial_ranges_per_message': 20,
           'rule': ('all distinct concatenations of <= k tokens (k=4 quick, '
                    '5 thorough) + 18 length-boundary strings (4095..65537 '
                    'bytes) + 30 header/nesting bombs; each APPENDed, fetched '
                    'with BODY[], RFC822.SIZE, HEADER, TEXT, BODYSTRUCTURE and '
                    '20 partial ranges (o,n) in {0,1,|b|-1,|b|,|b|+1}^2; every '
                    'part of BODYSTRUCTURE fetched and measured; COPY and MOVE '
                    'copies re-fetched (all strings in thorough, strings <= 2 '
                    'tokens in quick)'),
           'samples': [repr(s)[:100] for s in strings[::max(1, n // 10)]],
           'exhaustive': True}
    return finish(PROP, tier=tier, seed=seed, level='exploration',
                  coverage=cov, violations=violations, t0=t0, assumptions=[
                      'strings over the token alphabet up to k tokens (dict) '
                      '/ km tokens (maildir, real files) plus listed '
                      'boundaries (not arbitrary 64 KiB contents)',
                      'a zero-length literal is the MULTIAPPEND cancel, not a '
                      'message'])


def replay(rec):
    r = rec['replay']
    b = r['message']
    if isinstance(b, str):
        b = b.encode('latin1')
    ctx = make_world()
    out = []
    check_message(ctx, b, out)
    for st in ctx.steps[-6:]:
        print(st.sent[0][:100], '->', st.raw[:300])
    for v in out:
        print('VIOLATION-REPLAYED', v['rule'], v['site'], v['msg'])
    ctx.close()
    return 1 if out else 0
