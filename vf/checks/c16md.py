"""C16 on the maildir backend (real files, virtual time): the idling session
polls the folder once a second; after another session's burst *only time
passes* and every change must have been pushed."""
from __future__ import annotations

import itertools

from ..driver import Ctx
from ..report import Violation
from ..worlds import MaildirWorld
from .seqmodel import lit, msg

CMDS = {
    'A': b'APPEND INBOX ' + lit(msg(7)),
    'F': b'STORE 1 +FLAGS (\\Flagged)',
    'D': b'STORE 2 +FLAGS (\\Deleted)',
    'X': b'EXPUNGE',
    'M': b'MOVE 1 Other',
    'R': b'STORE 3 FLAGS ()',
    'C': b'COPY 2 INBOX',
    # lower case: run by a third session that has nothing selected (its
    # message lands in new/ and stays there until somebody SELECTs)
    'a': b'APPEND INBOX ' + lit(msg(8)),
    'N': b'NOOP',
    'L': b'STORE * +FLAGS (\\Flagged)',
    'Z': b'STORE * +FLAGS (\\Deleted)',
}
LETTERS = 'AFDXMRC'
# histories around a message that stays in new/
EXTRA = ['a', 'aN', 'aNL', 'aNZ', 'aNZX', 'aNLN', 'aL', 'aNM', 'aaNL']


def scenarios(tier):
    n = 2 if tier == 'quick' else 3
    for k in range(1, n + 1):
        for b in itertools.product(LETTERS, repeat=k):
            yield ''.join(b)
    yield from EXTRA


def run_one(layout, burst, mode, gap):
    """mode: 'q' each writer command at quiescence, 'p' pipelined in one
    segment; gap: seconds of virtual time between the writer's commands
    (0 = all before the idler's next poll; 1.2 = a poll in between)."""
    out = []
    site = f'{layout}:idle:{burst}:{mode}:{gap}'
    w = MaildirWorld(layout=layout, users={'alice': ('pw', ())},
                     jail_cheap=True)
    ctx = Ctx(w)
    try:
        for si in (0, 1, 2):
            ctx.connect()
            assert ctx.do(si, b'LOGIN alice pw').cond == 'OK'
        assert ctx.do(1, b'CREATE Other').cond == 'OK'
        for i in (1, 2, 3):
            fl = b'(\\Answered) ' if i == 3 else b''
            assert ctx.do(1, b'APPEND INBOX ' + fl + lit(msg(i))).cond == 'OK'
        for si in (0, 1):
            assert ctx.do(si, b'SELECT INBOX').cond == 'OK'
            assert ctx.do(si, b'FETCH 1:* (UID FLAGS)').cond == 'OK'
        for sh in ctx.shadows:
            sh.take_problems()
        st = ctx.do(0, b'IDLE')
        if st.tagged is not None or not any(r.kind == 'cont'
                                            for r in st.responses):
            return [Violation('idle-start', site, repr(st.raw))]
        loop = w.loop
        conds = []
        if mode == 'p' and not any(c.islower() for c in burst):
            s = ctx.session(1)
            data = b''.join(b'w%d ' % k + CMDS[c] + b'\r\n'
                            for k, c in enumerate(burst))
            s.conn.feed(data)
            loop.run_until_quiescent(horizon=0.0)
            _, rs = s.pull()
            for r in rs:
                if r.kind == 'untagged':
                    ctx.shadows[1].apply(r)
                if r.kind == 'tagged':
                    conds.append(r.name)
        else:
            for k, c in enumerate(burst):
                if k and gap:
                    loop.run_until_quiescent(horizon=gap)
                    ctx.pull_all()
                conds.append(ctx.do(2 if c.islower() else 1, CMDS[c]).cond)
        # from here on nothing but time
        loop.run_until_quiescent(horizon=3.5)
        st0 = ctx.open_steps.get(0)
        s0 = ctx.session(0)
        data, rs = s0.pull()
        ctx._absorb(0, st0, data, rs)
        sh = ctx.shadows[0]
        for rule, m in sh.take_problems():
            out.append(Violation('shadow.' + rule, site, f'idler: {m}'))
        if st0.tagged is not None or s0.done:
            out.append(Violation('idle-ended', site,
                                 f'IDLE ended by itself: {st0.raw[-120:]!r}'))
            return out
        # the mailbox as a third session sees it
        assert ctx.do(2, b'EXAMINE INBOX').cond == 'OK'
        sf = ctx.do(2, b'FETCH 1:* (UID FLAGS)')
        truth = [(r.data['UID'], frozenset(
            f.lower() for f in r.data.get('FLAGS', [])) - {b'\\recent'})
            for r in sf.untagged('FETCH')]
        view = [(sl.uid, None if sl.flags is None
                 else sl.flags - {b'\\recent'}) for sl in sh.slots]
        if len(view) != len(truth):
            out.append(Violation(
                'idle.not-delivered', site,
                f'3.5 s after {burst} ({conds}) the idler holds {len(view)} '
                f'messages {view}, the mailbox has {truth}'))
        else:
            for k, ((u, f), (tu, tf)) in enumerate(zip(view, truth)):
                if u is not None and u != tu:
                    out.append(Violation('idle.uid', site,
                               f'idler seq {k + 1} is UID {u}, mailbox {tu}'))
                    break
                if f is not None and f != tf:
                    out.append(Violation(
                        'idle.flags-not-delivered', site,
                        f'idler: UID {tu} flags {sorted(f)}, stored '
                        f'{sorted(tf)} after {burst} ({conds})'))
                    break
        st = ctx.more(0, b'DONE\r\n')
        if st.cond != 'OK':
            out.append(Violation('idle.done', site,
                                 f'DONE answered {st.cond} {st.raw[-80:]!r}'))
        for rule, m in sh.take_problems():
            out.append(Violation('shadow.' + rule, site,
                                 f'idler at DONE: {m}'))
        for h in ctx.harness_errors:
            raise RuntimeError(h)
    finally:
        ctx.close()
    for v in out:
        v['replay'] = {'md': True, 'layout': layout, 'burst': burst,
                       'mode': mode, 'gap': gap}
    return out


def task(args):
    layout, bursts = args
    out = []
    n = 0
    for b in bursts:
        for mode, gap in (('q', 0), ('q', 1.2), ('p', 0)):
            if mode == 'q' and gap and len(b) == 1:
                continue
            out += run_one(layout, b, mode, gap)
            n += 1
    return out, n
