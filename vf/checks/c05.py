"""C05 -- connection state machine follows RFC 3501 section 3.

Explicit-state BFS over the complete command set (one to three concrete lines
per built-in command) on one connection, for {TLS offered, not} x {local,
remote peer}; oracle = reference connection FSM (DESIGN appendix B)."""
from __future__ import annotations

import base64
import time

from ..canon import dict_world_key
from ..driver import Ctx
from ..explore import bfs, run_history
from ..report import Violation, finish
from ..worlds import DictWorld, StepBudgetExceeded

PROP = 'C05'

MSG = b'From: a@b\r\nSubject: t\r\n\r\nhello\r\n'


def _plain(authz, authc, pw):
    return base64.b64encode(b'%s\0%s\0%s' % (authz, authc, pw)) + b'\r\n'


def E(name, line, cls, conts=(), **kw):
    d = {'name': name, 'line': line, 'cls': cls, 'conts': list(conts)}
    d.update(kw)
    return d


def build_alphabet():
    lit = b'{%d+}\r\n%s' % (len(MSG), MSG)
    A = [
        # --- any state
        E('CAPABILITY', b'CAPABILITY', 'any'),
        E('NOOP', b'NOOP', 'any'),
        E('ID-NIL', b'ID NIL', 'any'),
        E('ID-list', b'ID ("name" "x")', 'any'),
        E('LOGOUT', b'LOGOUT', 'any', logout=True),
        # --- not authenticated
        E('STARTTLS', b'STARTTLS', 'nonauth', starttls=True),
        E('LOGIN-good', b'LOGIN demouser demopass', 'nonauth', login='good'),
        E('LOGIN-badpw', b'LOGIN demouser wrong', 'nonauth', login='bad'),
        E('LOGIN-1arg', b'LOGIN demouser', 'nonauth', login='bad',
          invalid=True),
        E('AUTH-PLAIN-good', b'AUTHENTICATE PLAIN', 'nonauth',
          [_plain(b'', b'demouser', b'demopass')], login='good', sasl=True),
        E('AUTH-PLAIN-bad', b'AUTHENTICATE PLAIN', 'nonauth',
          [_plain(b'', b'demouser', b'nope')], login='bad', sasl=True),
        E('AUTH-PLAIN-cancel', b'AUTHENTICATE PLAIN', 'nonauth', [b'*\r\n'],
          login='bad', sasl=True),
        E('AUTH-PLAIN-badb64', b'AUTHENTICATE PLAIN', 'nonauth',
          [b'!!!!\r\n'], login='bad', sasl=True),
        E('AUTH-BOGUS', b'AUTHENTICATE BOGUS', 'nonauth', login='bad',
          sasl=True),
        # --- authenticated
        E('SELECT-INBOX', b'SELECT INBOX', 'auth', select=('INBOX', False)),
        E('SELECT-Sent', b'SELECT Sent', 'auth', select=('Sent', False)),
        E('SELECT-Trash(ro-mailbox)', b'SELECT Trash', 'auth',
          select=('Trash', False)),
        E('EXAMINE-INBOX', b'EXAMINE INBOX', 'auth', select=('INBOX', True)),
        E('SELECT-missing', b'SELECT Missing', 'auth',
          select=('Missing', False)),
        E('EXAMINE-missing', b'EXAMINE Missing', 'auth',
          select=('Missing', True)),
        E('SELECT-noarg', b'SELECT', 'auth', invalid=True),
        E('CREATE-new', b'CREATE New', 'auth', ns=('create', 'New')),
        E('CREATE-existing', b'CREATE Sent', 'auth', ns=('create', 'Sent')),
        E('DELETE-Sent', b'DELETE Sent', 'auth', ns=('delete', 'Sent')),
        E('DELETE-missing', b'DELETE Missing', 'auth',
          ns=('delete', 'Missing')),
        E('RENAME-Sent-Sent2', b'RENAME Sent Sent2', 'auth',
          ns=('rename', 'Sent', 'Sent2')),
        E('RENAME-missing', b'RENAME Missing X', 'auth',
          ns=('rename', 'Missing', 'X')),
        E('SUBSCRIBE', b'SUBSCRIBE Sent', 'auth'),
        E('UNSUBSCRIBE', b'UNSUBSCRIBE Sent', 'auth'),
        E('LIST', b'LIST "" *', 'auth'),
        E('LSUB', b'LSUB "" *', 'auth'),
        E('STATUS-INBOX', b'STATUS INBOX (MESSAGES UIDNEXT)', 'auth'),
        E('STATUS-missing', b'STATUS Missing (MESSAGES)', 'auth'),
        E('STATUS-badattr', b'STATUS INBOX (BOGUS)', 'auth', invalid=True),
        E('APPEND-INBOX-lit+', b'APPEND INBOX ' + lit, 'auth'),
        E('APPEND-missing-lit+', b'APPEND Missing ' + lit, 'auth'),
        E('APPEND-INBOX-synclit', b'APPEND INBOX {%d}' % len(MSG), 'auth',
          [MSG + b'\r\n']),
        # --- selected
        E('CHECK', b'CHECK', 'select'),
        E('CLOSE', b'CLOSE', 'select', close=True),
        E('EXPUNGE', b'EXPUNGE', 'select'),
        E('UID-EXPUNGE', b'UID EXPUNGE 101', 'select'),
        E('FETCH-flags', b'FETCH 1 (FLAGS)', 'select'),
        E('FETCH-body', b'FETCH 1 (BODY[])', 'select'),
        E('FETCH-bad', b'FETCH 1 (BOGUS)', 'select', invalid=True),
        E('UID-FETCH', b'UID FETCH 101 (FLAGS)', 'select'),
        E('STORE', b'STORE 1 +FLAGS (\\Deleted)', 'select'),
        E('STORE-bad', b'STORE 1 +FLAGS', 'select', invalid=True),
        E('UID-STORE', b'UID STORE 101 -FLAGS.SILENT (\\Seen)', 'select'),
        E('SEARCH', b'SEARCH ALL', 'select'),
        E('UID-SEARCH', b'UID SEARCH UNSEEN', 'select'),
        E('SEARCH-bad', b'SEARCH BOGUSKEY', 'select', invalid=True),
        E('COPY', b'COPY 1 Sent', 'select'),
        E('COPY-missing', b'COPY 1 Missing', 'select'),
        E('UID-COPY', b'UID COPY 101 INBOX', 'select'),
        E('MOVE', b'MOVE 1 Sent', 'select'),
        E('UID-MOVE-missing', b'UID MOVE 101 Missing', 'select'),
        E('IDLE-DONE', b'IDLE', 'select', [b'DONE\r\n'], idle=True),
        E('IDLE-garbage', b'IDLE', 'select', [b'WHAT\r\n'], idle=True,
          invalid=True),
        # --- environment: another session deletes the mailbox this
        # connection has selected (enabled only then)
        E('ENV:selected-mailbox-deleted', None, 'env'),
        # --- unknown / unparseable
        E('BOGUS', b'BOGUSCMD', 'unknown', invalid=True),
        E('BOGUS-args', b'XYZZY 1 2 3', 'unknown', invalid=True),
    ]
    return A


class FSM:
    """Reference connection state machine; plain data, no pymap."""

    def __init__(self, tls_offered: bool, local: bool) -> None:
        self.state = 'N'            # N, A, S, X
        self.user = None
        self.mailbox = None
        self.readonly = None
        self.tls_offered = tls_offered
        self.tls_done = False
        # LOGINDISABLED is advertised while no PLAIN mechanism is offered:
        # TLS configured, not yet negotiated, and the peer is not local
        self.login_disabled = tls_offered and not local
        self.existing = {'INBOX', 'Sent', 'Trash'}
        self.ro_boxes = {'Trash'}
        # consecutive commands answered BAD; pymap hangs up (BYE) once its
        # --bad-command-limit (5 in these worlds) is reached
        self.bad_run = 0
        # the mailbox of the current selection was deleted by another session
        self.orphan = False

    def key(self):
        return (self.state, self.user, self.mailbox, self.readonly,
                self.tls_done, self.login_disabled,
                tuple(sorted(self.existing)), self.bad_run, self.orphan)

    def predict(self, ev):
        conds, nexts, unchanged = self._predict(ev)
        if self.state == 'S' and self.orphan \
                and not ev.get('close') and not ev.get('logout'):
            # the selected mailbox was deleted by somebody else: the server
            # may notice at any command and deselect or hang up (BYE)
            extra = [n for n in (('A', None, None), ('X', None, None))
                     if n not in nexts]
            return conds | {'NO'}, nexts + extra, False
        return conds, nexts, unchanged

    def _predict(self, ev):
        """-> (admissible tagged conditions, list of admissible next control
        states as (state, mailbox, readonly), must_be_unchanged)."""
        st = self.state
        cur = (st, self.mailbox, self.readonly)
        cls = ev['cls']
        refused = ({'NO', 'BAD'}, [cur], True)
        if ev.get('logout'):
            return ({'OK'}, [('X', None, None)], False)
        if cls == 'unknown':
            return refused
        if cls == 'any':
            return ({'OK'}, [cur], False)
        if cls == 'nonauth':
            if st != 'N':
                return refused
            if ev.get('starttls'):
                if self.tls_offered and not self.tls_done:
                    return ({'OK'}, [cur], False)
                return refused
            if ev.get('login') == 'good':
                if ev.get('sasl'):
                    if self.login_disabled:
                        # no mechanism offered before TLS
                        return refused
                    return ({'OK'}, [('A', None, None)], False)
                if self.login_disabled:
                    return refused
                return ({'OK'}, [('A', None, None)], False)
            return refused
        if cls == 'auth':
            if st == 'N':
                return refused
            if ev.get('invalid'):
                return refused
            if 'select' in ev:
                name, ro = ev['select']
                if name in self.existing:
                    return ({'OK'}, [('S', name,
                                      ro or name in self.ro_boxes)], False)
                return ({'NO'}, [('A', None, None)], False)
            if 'ns' in ev:
                ns = ev['ns']
                nxt = [cur]
                if st == 'S' and ns[0] in ('delete', 'rename') \
                        and ns[1] == self.mailbox:
                    # selected mailbox removed under the selection: staying,
                    # deselecting, or BYE + close are all admissible
                    nxt = [cur, ('A', None, None), ('X', None, None)]
                return ({'OK', 'NO'}, nxt, False)
            return ({'OK', 'NO'}, [cur], False)
        if cls == 'select' and st == 'S' and self.orphan:
            # the selected mailbox is gone: CLOSE still succeeds; anything
            # else may be refused, may deselect or may end in BYE
            if ev.get('close'):
                return ({'OK'}, [('A', None, None)], False)
            if ev.get('idle'):
                return ({'OK', 'NO', 'BAD'},
                        [cur, ('A', None, None), ('X', None, None)], False)
            return ({'OK', 'NO', 'BAD'},
                    [cur, ('A', None, None), ('X', None, None)], False)
        if cls == 'select':
            if st != 'S':
                if ev.get('idle') and st == 'A':
                    # RFC 2177 allows IDLE in authenticated state
                    return ({'OK', 'NO', 'BAD'}, [cur], False)
                return refused
            if ev.get('invalid') and not ev.get('idle'):
                return refused
            if ev.get('close'):
                return ({'OK'}, [('A', None, None)], False)
            if ev.get('idle'):
                if ev.get('invalid'):
                    return ({'BAD'}, [cur], False)
                return ({'OK'}, [cur], False)
            return ({'OK', 'NO'}, [cur], False)
        raise AssertionError(ev)

    def advance(self, ev, cond, observed):
        """Move the model to the admissible next state that was observed."""
        st, mbx, ro = observed
        # (pymap counts BAD responses and resets on a completed command; NO
        # answers raised as errors do not reset it: reset on OK only, so the
        # model's count is never below the server's)
        if cond == 'BAD':
            self.bad_run += 1
        elif cond == 'OK':
            self.bad_run = 0
        if ev.get('starttls') and cond == 'OK':
            self.tls_done = True
            self.login_disabled = False
        if st == 'A' and self.state == 'N':
            self.user = 'demouser'
        if 'ns' in ev and cond == 'OK':
            ns = ev['ns']
            if ns[0] == 'create':
                self.existing.add(ns[1])
            elif ns[0] == 'delete':
                self.existing.discard(ns[1])
            elif ns[0] == 'rename':
                self.existing.discard(ns[1])
                self.existing.add(ns[2])
        if (st, mbx) != (self.state, self.mailbox) or \
                ('select' in ev and cond == 'OK'):
            self.orphan = False
        self.state, self.mailbox, self.readonly = st, mbx, ro


def effect_key(ctx):
    """Connection control state + mailbox data (what 'no effect on state or
    data' is about): no internal cursors, logs or counters."""
    w = ctx.world
    stores = []
    for user in sorted(w.config.set_cache):
        mset, fset = w.config.set_cache[user]
        boxes = [('INBOX', mset._inbox)] + sorted(mset._set.items())
        bk = []
        for name, mbx in boxes:
            bk.append((name, tuple(
                (uid, tuple(sorted(bytes(f) for f in m.permanent_flags)),
                 bool(m.recent))
                for uid, m in sorted(mbx._messages.items())), mbx._max_uid))
        stores.append((user, tuple(bk), tuple(sorted(
            n for n, v in mset._subscribed.items() if v))))
    conns = []
    for s in w.sessions:
        conns.append(observed_control(s))
    return (tuple(stores), tuple(conns))


def observed_control(s):
    st = s.state
    if s.done or s.conn.closed:
        return ('X', None, None)
    if st._session is None:
        return ('N', None, None)
    sel = st._selected
    if sel is None:
        return ('A', None, None)
    return ('S', sel._lookup, bool(sel._readonly))


class Model:
    name = 'c05'

    def __init__(self, tls: bool, local: bool, prior: int = 0) -> None:
        self.params = {'tls': tls, 'local': local, 'prior': prior}
        self.tls = tls
        self.local = local
        # connections the server has served (and seen leave) before
        self.prior = prior
        self._alpha = build_alphabet()

    def alphabet(self):
        return self._alpha

    def new(self):
        w = DictWorld(demo_data=True, tls_enabled=self.tls, users={})
        for k in range(self.prior):
            # non-initial server: earlier connections came, did something
            # and left (the second one negotiated TLS and logged in)
            s0 = w.connect(peer='127.0.0.1' if self.local else '1.2.3.4')
            w.cmd(s0, b'CAPABILITY')
            if k % 2 == 1:
                if self.tls:
                    w.cmd(s0, b'STARTTLS')
                w.cmd(s0, b'LOGIN demouser demopass')
                w.cmd(s0, b'SELECT INBOX')
            w.cmd(s0, b'LOGOUT')
            assert s0.task.done()
        del w.sessions[:]
        ctx = Ctx(w)
        ctx.connect(peer='127.0.0.1' if self.local else '1.2.3.4')
        ctx.extra['fsm'] = FSM(self.tls, self.local)
        ctx.extra['selected_id'] = None
        return ctx

    def enabled(self, ctx):
        s = ctx.session(0)
        if s.done or s.conn.closed:
            return []
        fsm = ctx.extra['fsm']
        return [i for i, e in enumerate(self._alpha)
                if e['cls'] != 'env' or (
                    fsm.state == 'S' and fsm.mailbox in fsm.existing
                    and fsm.mailbox != 'INBOX')]

    def terminal(self, ctx):
        s = ctx.session(0)
        return s.done or s.conn.closed

    def apply(self, ctx, i):
        ev = self._alpha[i]
        fsm: FSM = ctx.extra['fsm']
        s = ctx.session(0)
        if ev['cls'] == 'env':
            h = ctx.extra.get('helper')
            if h is None:
                h = ctx.extra['helper'] = ctx.connect(peer='127.0.0.1')
                assert ctx.do(h, b'LOGIN demouser demopass').cond == 'OK'
            st = ctx.do(h, b'DELETE ' + fsm.mailbox.encode())
            if st.cond == 'OK':
                fsm.existing.discard(fsm.mailbox)
                fsm.orphan = True
            ctx.pull_all()
            return []
        before = effect_key(ctx)
        conds, nexts, unchanged = fsm.predict(ev)
        st = ctx.do(0, ev['line'], ev['conts'])
        out = []
        site = f"{ev['name']}@{fsm.state}" + \
            ('ro' if fsm.readonly else '') + \
            ('/tls' if fsm.tls_done else '') + \
            ('/logindisabled' if fsm.login_disabled else '')

        def bad(rule, msg):
            out.append(Violation(rule, site, msg))
        if st.hang:
            bad('hang', st.hang)
        obs = observed_control(s)
        if st.tagged is None and fsm.orphan and fsm.mailbox in fsm.existing \
                and b'[SERVERBUG]' in st.raw:
            # the selected mailbox was deleted by another session and a new
            # one created under its name: the stale selection is applied to
            # it by name (one root cause, recorded once)
            out.append(Violation(
                'serverbug-stale-selection', 'selection-of-recreated-mailbox',
                f'{ev["name"]} on a selection whose mailbox was deleted and '
                f're-created: {st.raw[-80:]!r}'))
            fsm.advance(ev, None, obs)
            return out
        if st.tagged is None:
            bad('no-tagged-response',
                f'no tagged completion for {ev["line"]!r}: {st.raw[-120:]!r}')
            fsm.advance(ev, None, obs)
            return out
        cond = st.cond
        hung_up = False
        if cond == 'BAD' and fsm.bad_run + 1 >= BAD_LIMIT and obs[0] == 'X' \
                and any(r.kind == 'untagged' and r.name == 'BYE'
                        for r in st.responses):
            # too many consecutive errors: BYE and disconnect is the
            # documented reaction, not an effect of the refused command
            hung_up = True
            nexts = nexts + [obs]
        if cond not in conds:
            bad('wrong-condition',
                f'{ev["name"]} in state {fsm.state}: got {cond} '
                f'({st.tagged.text!r}), admissible {sorted(conds)}')
        if obs not in nexts:
            bad('wrong-next-state',
                f'{ev["name"]} in state {(fsm.state, fsm.mailbox, fsm.readonly)}'
                f' -> {obs}, admissible {nexts}')
        after = effect_key(ctx)
        if hung_up:
            # compare the data only: the connection is gone by design
            before, after = before[0], after[0]
        if (unchanged or (cond in ('NO', 'BAD') and 'select' not in ev)) \
                and after != before:
            bad('refused-but-changed',
                f'{ev["name"]} answered {cond} but state/data changed')
        if ev.get('logout'):
            byes = [r for r in st.responses
                    if r.kind == 'untagged' and r.name == 'BYE']
            order_ok = byes and st.responses.index(byes[0]) < \
                st.responses.index(st.tagged)
            if not order_ok or cond != 'OK':
                bad('logout-shape', f'LOGOUT must give BYE then OK: {st.raw!r}')
            if not (s.done and s.conn.closed):
                bad('logout-not-closed', 'connection still open after LOGOUT')
        if 'select' in ev and cond == 'OK':
            # selects exactly that mailbox: MAILBOXID in the response equals
            # the id of the named mailbox; READ-ONLY/READ-WRITE code is right
            name, ro = ev['select']
            mid = [r.code_arg for r in st.responses
                   if r.kind == 'untagged' and r.code == b'MAILBOXID']
            ctx.extra['selected_id'] = mid[0] if mid else None
            exp_ro = ro or name in fsm.ro_boxes
            code = st.tagged.code
            if code != (b'READ-ONLY' if exp_ro else b'READ-WRITE'):
                bad('select-mode', f'{ev["name"]}: code {code!r}, expected '
                    f'read-only={exp_ro}')
        if obs[0] == 'X' and not ev.get('logout'):
            # closing is admissible only after a BYE
            if not any(r.kind == 'untagged' and r.name == 'BYE'
                       for r in st.responses):
                bad('closed-without-bye', f'{ev["name"]}: connection closed '
                    f'with no BYE: {st.raw!r}')
        fsm.advance(ev, cond, obs)   # follow the implementation: no cascades
        out.extend(ctx.shadow_violations())
        for h in ctx.harness_errors:
            raise RuntimeError(h)
        return out

    def key(self, ctx):
        return (dict_world_key(ctx.world, ctx.shadows),
                ctx.extra['fsm'].key())

    def outcome(self, ctx):
        return ctx.last.summary() if ctx.last else None

    def probe(self, ctx):
        """Black-box confirmation of the control state on the discarded
        world."""
        out = []
        fsm: FSM = ctx.extra['fsm']
        s = ctx.session(0)
        if s.done or s.conn.closed:
            return out
        site = f'probe@{fsm.state}'
        p1 = ctx.do(0, b'LIST "" ""')
        authed = p1.cond == 'OK'
        if authed != (fsm.state in ('A', 'S')):
            out.append(Violation('probe-auth', site,
                       f'LIST answered {p1.cond} in model state {fsm.state}'))
        if fsm.orphan:
            # what message commands do on an orphaned selection is open
            return out
        p2 = ctx.do(0, b'CHECK')
        selected = p2.cond == 'OK'
        if selected != (fsm.state == 'S'):
            out.append(Violation('probe-selected', site,
                       f'CHECK answered {p2.cond} in model state {fsm.state}'))
        if fsm.state == 'S' and selected and fsm.mailbox in fsm.existing:
            p3 = ctx.do(0, b'STATUS %s (MAILBOXID)' % fsm.mailbox.encode())
            ids = [r.data[1].get('MAILBOXID') for r in p3.untagged('STATUS')]
            if ids and ctx.extra.get('selected_id') is not None and \
                    ids[0] != ctx.extra['selected_id']:
                out.append(Violation('probe-which-mailbox', site,
                           f'selected id {ctx.extra["selected_id"]!r} is not '
                           f'the id of {fsm.mailbox} ({ids[0]!r})'))
            # read-only selections refuse STORE, read-write ones accept it
            p4 = ctx.do(0, b'STORE 1:* +FLAGS.SILENT (\\Answered)')
            if fsm.readonly and p4.cond == 'OK':
                out.append(Violation('probe-readonly', site,
                           'STORE accepted in a read-only selection'))
            if not fsm.readonly and p4.cond != 'OK':
                out.append(Violation('probe-readwrite', site,
                           f'STORE refused ({p4.cond}) in a read-write '
                           f'selection'))
        return out

    def close(self, ctx):
        ctx.close()

    def show_last(self, ctx):
        ctx.show_last()


BAD_LIMIT = 5
CONFIGS = [(False, False), (True, False), (True, True), (False, True),
           # the third connection the server serves
           (True, False, 2), (True, True, 2)]

# ---- delivery timing: the same command sequence, delivered differently -------
#
# "Which commands are accepted depends only on the connection state reached so
# far": not on when the bytes of the next command arrive.  For every reached
# state S and every ordered pair (e1, e2) the pair is executed three times on a
# fresh replay of S -- e2 sent after the server went quiescent (the default
# environment), e2 sent the moment e1's tagged response is visible (eager
# client: background tasks of e1 are still pending), and both in one segment
# (pipelined) -- and the tagged conditions and the final control state + data
# must agree with the quiescent run.

E1_QUICK = ['IDLE-DONE', 'IDLE-garbage', 'SELECT-INBOX', 'EXAMINE-INBOX',
            'SELECT-missing', 'CLOSE', 'LOGIN-good', 'LOGIN-badpw', 'STARTTLS',
            'APPEND-INBOX-lit+', 'STORE', 'EXPUNGE', 'FETCH-body', 'BOGUS']


def _pipelinable(ev) -> bool:
    # a client must wait for '+' before a synchronising literal / SASL
    # response; LOGOUT ends the connection (nothing may follow)
    return (not ev['conts'] or ev.get('idle')) and not ev.get('logout') \
        and ev['cls'] != 'env'


def _send_until(ctx, si, data, tags, max_handles=20000):
    """Feed ``data`` and run the loop one iteration at a time until a
    tagged response for one of ``tags`` is visible (or nothing is runnable).
    Returns the responses seen."""
    w = ctx.world
    s = ctx.session(si)
    s.conn.feed(data)
    seen = []
    n = 0
    while True:
        w.loop._move_due_timers()
        if not w.loop._ready:
            break
        n += w.loop.step()
        _, rs = s.pull()
        seen += rs
        if any(r.kind == 'tagged' and r.tag in tags for r in rs):
            break
        if n > max_handles:
            raise StepBudgetExceeded('eager send')
    return seen


def _pair_run(model, history, e1, e2, mode):
    ctx = model.new()
    try:
        for i in history:
            model.apply(ctx, i)
        s = ctx.session(0)
        if s.done or s.conn.closed:
            return None
        a, b = model._alpha[e1], model._alpha[e2]
        l1 = b'x1 ' + a['line'] + b'\r\n' + b''.join(a['conts'])
        l2 = b'x2 ' + b['line'] + b'\r\n' + b''.join(b['conts'])
        rs = []
        if mode == 'quiescent':
            for ln in (l1, l2):
                if s.done or s.conn.closed:
                    break
                _, r = ctx.world.send(s, ln)
                rs += r
        elif mode == 'eager':
            rs += _send_until(ctx, 0, l1, (b'x1',))
            if not (s.done or s.conn.closed):
                rs += _send_until(ctx, 0, l2, (b'x2',))
        else:
            s.conn.feed(l1 + l2)
        ctx.world.loop.run_until_quiescent(horizon=0.0)
        _, r = s.pull()
        rs += r
        conds = tuple((r.tag, r.name) for r in rs if r.kind == 'tagged'
                      and r.tag in (b'x1', b'x2'))
        bye = any(r.kind == 'untagged' and r.name == 'BYE' for r in rs)
        return conds, effect_key(ctx), bye
    finally:
        ctx.close()


def _pair_task(args):
    params, history, e1 = args
    m = Model(params['tls'], params['local'], params.get('prior', 0))
    out = []
    n = 0
    for e2 in range(len(m._alpha)):
        if not _pipelinable(m._alpha[e1]):
            continue
        if m._alpha[e2]['cls'] == 'env' or not (
                _pipelinable(m._alpha[e2]) or m._alpha[e2].get('logout')):
            continue
        base = _pair_run(m, history, e1, e2, 'quiescent')
        if base is None:
            continue
        for mode in ('eager', 'pipelined'):
            n += 1
            got = _pair_run(m, history, e1, e2, mode)
            if got == base:
                continue
            names = [m._alpha[i]['name'] for i in history]
            a, b = m._alpha[e1]['name'], m._alpha[e2]['name']
            what = 'tagged conditions' if got[0] != base[0] else \
                'final control state / data'
            ctl = ''
            if got[0] == base[0]:
                ctl = f' (connection {base[1][1]} vs {got[1][1]})'
            out.append(Violation(
                'delivery-timing', f'{a};{b}:{mode}',
                f'after {names}: {a} then {b} delivered {mode} gives '
                f'different {what} than when {b} is sent after the server '
                f'went quiescent: {[(t.decode(), c) for t, c in got[0]]} vs '
                f'{[(t.decode(), c) for t, c in base[0]]}{ctl}',
                replay={'pair': True, 'params': params,
                        'history': list(history), 'e1': e1, 'e2': e2,
                        'mode': mode}))
    return out, n


def run(*, tier, seed, jobs, progress, opts):
    t0 = time.perf_counter()
    depth = int(opts.get('depth', 4 if tier == 'quick' else 5))
    configs = CONFIGS
    if 'configs' in opts:
        configs = CONFIGS[:int(opts['configs'])]
    violations = []
    cov = {'configs': [], 'states': 0, 'transitions': 0,
           'traces_validated_against_impl': 0, 'samples': []}
    errors = []
    for tls, local, *rest in configs:
        prior = rest[0] if rest else 0
        m = Model(tls, local, prior)
        res = bfs(m, depth - 1 if prior and tier == 'quick' else depth,
                  jobs=jobs, seed=seed, progress=progress)
        c = res.coverage(m)
        cov['configs'].append({'tls_offered': tls, 'local_peer': local,
                               'earlier_connections': prior, **{
            k: c[k] for k in ('states', 'transitions', 'depth_completed',
                              'frontier_sizes', 'state_cap_hit',
                              'single_outcome_events')}})
        cov['states'] += c['states']
        cov['transitions'] += c['transitions']
        cov['traces_validated_against_impl'] += c['transitions']
        cov['samples'] += [[e['name'] for e in smp] for smp in c['samples'][:3]]
        cov.setdefault('distinct_outcomes_per_event', {})[
            f'tls={tls},local={local}' + (f',prior={prior}' if prior else '')] = {
            e['name']: len(res.outcomes_per_event.get(i, ()))
            for i, e in enumerate(m.alphabet())}
        violations += res.violations
        errors += res.errors
        # delivery-timing differential on the states reached so far
        pdepth = int(opts.get('pair_depth', 2 if tier == 'quick' else 3))
        if prior or (tls, local) not in (
                [(False, False)] if tier == 'quick'
                else [(False, False), (True, True)]):
            continue
        names = [e['name'] for e in m.alphabet()]
        quick_e1 = [names.index(n) for n in E1_QUICK]
        hists = [h for h in sorted(res.state_histories,
                                   key=lambda h: (len(h), h))
                 if len(h) <= pdepth]
        import multiprocessing as mp
        # thorough: every first command in the states within pdepth-1
        # commands, the 14 first commands with background work or state
        # change in the states at pdepth
        ptasks = [(m.params, h, e1) for h in hists
                  for e1 in (quick_e1 if tier == 'quick' or len(h) == pdepth
                             else range(len(names)))]
        e1s = quick_e1 if tier == 'quick' else list(range(len(names)))
        pairs = 0
        with mp.get_context('fork').Pool(jobs or 16) as pool:
            for vs, n in pool.imap_unordered(_pair_task, ptasks,
                                             chunksize=4):
                violations += vs
                pairs += n
        cov.setdefault('delivery_timing', []).append({
            'tls_offered': tls, 'local_peer': local,
            'states': len(hists), 'state_depth': pdepth,
            'first_commands': len(e1s), 'executions': pairs})
        cov['transitions'] += pairs
        cov['traces_validated_against_impl'] += pairs
    if errors:
        print(errors[0])
        raise RuntimeError('harness error during exploration')
    cov['alphabet'] = [e['name'] for e in build_alphabet()]
    cov['alphabet_size'] = len(cov['alphabet'])
    cov['depth'] = depth
    cov['exhaustive'] = True
    cov['rule'] = ('all command sequences of length <= depth over the '
                   'alphabet, deduplicated by canonical glass-box state; '
                   'every transition is one execution of the real server; '
                   'delivery timing: in every state reached within '
                   'state_depth commands, every ordered pair of commands '
                   '(quick: 14 first commands x all second commands) is '
                   'executed with the second command sent at quiescence, the '
                   'moment the first tagged response is visible, and '
                   'pipelined in one segment; tagged conditions and final '
                   'control state + data must agree')
    return finish(PROP, tier=tier, seed=seed, level='model_checking',
                  coverage=cov, violations=violations, t0=t0, assumptions=[
                      'single connection; dict backend with demo data; '
                      'TLS handshake answered by the mock transport',
                      'control state only (data effects are C10-C12)',
                      'sequences longer than the depth bound not explored'])


def replay(rec):
    r = rec['replay']
    m = Model(r['params']['tls'], r['params']['local'],
              r['params'].get('prior', 0))
    if r.get('pair'):
        base = _pair_run(m, r['history'], r['e1'], r['e2'], 'quiescent')
        got = _pair_run(m, r['history'], r['e1'], r['e2'], r['mode'])
        if got != base:
            print('VIOLATION-REPLAYED delivery-timing', got[0], base[0])
            return 1
        return 0
    viols = run_history(m, r['history'])
    for v in viols:
        print('VIOLATION-REPLAYED', v['rule'], v['site'], v['msg'])
    return 1 if viols else 0
