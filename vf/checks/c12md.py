"""C12 on the maildir backend: inside a read-only selection (EXAMINE, or a
SELECT of a mailbox another program made read-only is not available on
maildir) no command may change the store.  The store is files: every command
of the C12 alphabet is executed in the read-only selection and the complete
file tree of the user (names - which carry the flags and the new/cur
placement, i.e. \\Recent - and contents, including the UID lists, keyword and
subscription files) must be byte-identical afterwards; then every ordered
pair of a reduced alphabet."""
from __future__ import annotations

import hashlib
import os

from .. import fsjail
from ..driver import Ctx
from ..report import Violation
from ..worlds import MaildirWorld
from .c12 import build_cmds, lit, msg


def tree(base):
    out = []
    with fsjail.unjailed():
        for d, ds, fs in os.walk(base):
            ds.sort()
            rel = os.path.relpath(d, base)
            if not fs and not ds:
                out.append((rel + '/', ''))
            for f in sorted(fs):
                if f.endswith('.lock'):
                    continue
                p = os.path.join(d, f)
                try:
                    with open(p, 'rb') as fh:
                        h = hashlib.sha1(fh.read()).hexdigest()[:12]
                except OSError:
                    h = '?'
                out.append((os.path.join(rel, f), h))
    return tuple(out)


def world(layout):
    w = MaildirWorld(layout=layout, users={'alice': ('pw', ())},
                     jail_cheap=True)
    ctx = Ctx(w)
    s0 = ctx.connect()
    assert ctx.do(s0, b'LOGIN alice pw').cond == 'OK'
    for box in (b'Sent', b'Trash'):
        assert ctx.do(s0, b'CREATE ' + box).cond == 'OK'
    for i in (1, 2, 3):
        fl = (b'', b'(\\Seen \\Answered) ', b'(\\Deleted) ')[i - 1]
        assert ctx.do(s0, b'APPEND INBOX ' + fl + lit(msg(i))).cond == 'OK'
    assert ctx.do(s0, b'SELECT INBOX').cond == 'OK'
    assert ctx.do(s0, b'SELECT Sent').cond == 'OK'
    # one more message arrives while nobody has INBOX selected: it lies in
    # new/ (that is its \Recent) and already has its UID
    assert ctx.do(s0, b'APPEND INBOX ' + lit(msg(4))).cond == 'OK'
    assert ctx.do(s0, b'STATUS INBOX (MESSAGES)').cond == 'OK'
    ctx.do(s0, b'LOGOUT')
    r = ctx.connect()
    assert ctx.do(r, b'LOGIN alice pw').cond == 'OK'
    st = ctx.do(r, b'EXAMINE INBOX')
    assert st.cond == 'OK' and st.tagged.code == b'READ-ONLY', st.raw
    return w, ctx, r


def run_program(layout, lines):
    out = []
    w, ctx, r = world(layout)
    try:
        base = w.user_dir('alice')
        before = tree(base)
        site = ' ; '.join(ln.split(b' {')[0].decode('latin1')
                          for ln, _ in lines)[:120]
        inside = True
        for line, kind in lines:
            if kind == 'idle':
                st = ctx.do(r, b'IDLE')
                if st.tagged is None:
                    w.loop.run_until_quiescent(horizon=2.5)
                    st = ctx.more(r, b'DONE\r\n')
            else:
                st = ctx.do(r, line)
            if ctx.session(r).done:
                break
            if kind in ('store', 'expunge') and inside and st.cond != 'NO':
                out.append(Violation(
                    'not-refused', f'{layout}:{site}',
                    f'{line!r:.80} in a read-only selection answered '
                    f'{st.cond}'))
            if kind == 'close':
                inside = False
            # COPY/MOVE/APPEND *into* other mailboxes legitimately add there
        after = tree(base)
        changed = [(a, b) for a, b in zip(before, after) if a != b]
        if len(before) != len(after) or changed:
            only_b = sorted(set(before) - set(after))
            only_a = sorted(set(after) - set(before))
            # additions outside INBOX by COPY into another mailbox are the
            # command's job; anything concerning INBOX is not
            def inbox_side(ents):
                return [e for e in ents
                        if not e[0].startswith(('.Sent', 'Sent', '.Trash',
                                                'Trash'))]
            if inbox_side(only_b) or inbox_side(only_a):
                out.append(Violation(
                    'persistent-changed', f'{layout}:{site}',
                    f'{site!r} inside EXAMINE INBOX changed the store: gone '
                    f'{inbox_side(only_b)[:4]}, new {inbox_side(only_a)[:4]}'))
        for h in ctx.harness_errors:
            raise RuntimeError(h)
    finally:
        ctx.close()
    for v in out:
        v['replay'] = {'md': True, 'layout': layout,
                       'lines': [[ln.decode('latin1'), k] for ln, k in lines]}
    return out


def task(args):
    layout, programs = args
    out = []
    for lines in programs:
        out += run_program(layout, lines)
    return out, len(programs)


def programs(tier):
    # (COPY by name into INBOX itself is an ordinary delivery into a
    # read-write mailbox, as in the dict plans: excluded)
    cmds = [(c, k) for c, k in build_cmds(b'Sent', b'INBOX')
            if k != 'append-ro' and b'Trash' not in c and b'Missing' not in c]
    P = [[c] for c in cmds]
    core = [c for c in cmds if c[0] in (
        b'FETCH 1:* BODY[]', b'STORE 1:* +FLAGS (\\Deleted)', b'EXPUNGE',
        b'CLOSE', b'NOOP', b'COPY 1:* Sent', b'MOVE 1:* Sent',
        b'UID FETCH 1:* RFC822', b'CHECK', b'IDLE', b'SEARCH RECENT',
        b'UID EXPUNGE 1:*')]
    for a in core:
        for b in core:
            P.append([a, b])
    return P
