"""C15 -- maildir state survives restart and crashes without UID damage.

For every history (<= 2 quick / 3 thorough commands) over a 12-command
alphabet, on both layouts (and with the temp directory on another
filesystem): one execution under the filesystem interposer takes a snapshot of
the store before *every* namespace-changing filesystem call (= the disk state a
SIGKILL at that boundary leaves) and at the clean stop; every distinct snapshot
is recovered by a fresh backend (clock advanced past lock expiry) and compared
with the acknowledged-effects log of the crashed run."""
from __future__ import annotations

import errno
import hashlib
import itertools
import multiprocessing as mp
import os
import re
import shutil
import time

from .. import fsjail
from ..driver import Ctx
from ..report import Violation, finish
from ..worlds import MaildirWorld, scratch_root, scratch_parent

PROP = 'C15'


def body(tok: str) -> bytes:
    return (f'Subject: {tok}\n\ntoken-{tok}-body\n').encode()


def lit(b):
    return b'{%d+}\r\n%s' % (len(b), b)


def norm(b: bytes | None) -> bytes:
    return (b or b'').replace(b'\r\n', b'\n').strip()


TOKEN = re.compile(rb'token-([A-Za-z0-9]+)-body')

ALPHABET = [
    ('APPEND-INBOX', lambda k: b'APPEND INBOX ' + lit(body(f'n{k}'))),
    ('APPEND-INBOX-flags', lambda k: b'APPEND INBOX (\\Flagged) ' +
     lit(body(f'f{k}'))),
    ('APPEND-a', lambda k: b'APPEND a ' + lit(body(f'a{k}'))),
    ('STORE1+Seen', lambda k: b'STORE 1 +FLAGS (\\Seen)'),
    ('STORE1=Deleted', lambda k: b'STORE 1 FLAGS (\\Deleted)'),
    ('COPY1-a', lambda k: b'COPY 1 a'),
    ('MOVE1-a', lambda k: b'MOVE 1 a'),
    ('EXPUNGE', lambda k: b'EXPUNGE'),
    ('CREATE-a', lambda k: b'CREATE a'),
    ('RENAME-a-b', lambda k: b'RENAME a b'),
    ('SUBSCRIBE-a', lambda k: b'SUBSCRIBE a'),
    ('CHECK', lambda k: b'CHECK'),
]

_TEMPLATES: dict = {}


def template(layout):
    t = _TEMPLATES.get(layout)
    if t is not None:
        return t
    w = MaildirWorld(layout=layout, users={'alice': ('pw', ())})
    ctx = Ctx(w)
    si = ctx.connect()
    assert ctx.do(si, b'LOGIN alice pw').cond == 'OK'
    acks = []
    for tok in ('t1', 't2'):
        st = ctx.do(si, b'APPEND INBOX ' + lit(body(tok)))
        assert st.cond == 'OK' and st.tagged.code == b'APPENDUID', st.raw
        uv, uids = st.tagged.code_arg
        acks.append(('add', 'INBOX', uv, int(uids), tok))
    # have the messages moved to cur/ and the recent claim consumed, like a
    # store that has been in use
    assert ctx.do(si, b'SELECT INBOX').cond == 'OK'
    assert ctx.do(si, b'CLOSE').cond == 'OK'
    ctx.do(si, b'LOGOUT')
    root = w.root
    w.own_root = False
    ctx.close()
    _TEMPLATES[layout] = (root, acks)
    return _TEMPLATES[layout]


def cleanup_templates():
    for root, _ in _TEMPLATES.values():
        with fsjail.unjailed():
            shutil.rmtree(root, ignore_errors=True)
    _TEMPLATES.clear()


def digest_tree(path):
    h = hashlib.sha256()
    with fsjail.unjailed():
        for dp, dn, fn in os.walk(path):
            dn.sort()
            h.update(dp[len(path):].encode('utf-8', 'surrogateescape') + b'/')
            for f in sorted(fn):
                h.update(f.encode('utf-8', 'surrogateescape') + b'\0')
                try:
                    with open(os.path.join(dp, f), 'rb') as fh:
                        h.update(fh.read())
                except OSError:
                    h.update(b'?')
    return h.digest()


class Crashed(BaseException):
    pass


def run_history(layout, hist, other_fs):
    """Execute the history once; returns (snapshots, acks).  snapshots:
    list of (label, n_acked_commands, inflight_index|None, dir)."""
    troot, acks0 = template(layout)
    root = scratch_root()
    snaproot = scratch_root()
    with fsjail.unjailed():
        shutil.rmtree(root)
        shutil.copytree(troot, root, symlinks=True)
    w = MaildirWorld(layout=layout, root=root, reuse=True,
                     users={'alice': ('pw', ())}, tmp_other_fs=other_fs)
    w.own_root = True
    snaps = []
    seen = {}
    state = {'acked': 0, 'inflight': None, 'n': 0}
    acks = list(acks0)
    tmpd = os.path.realpath(w.tmp_dir)
    store = os.path.realpath(w.base_dir)

    def snap(label):
        d = digest_tree(w.base_dir)
        key = (d, state['acked'], state['inflight'])
        if key in seen:
            return
        seen[key] = True
        dst = os.path.join(snaproot, 's%d' % len(snaps))
        with fsjail.unjailed():
            shutil.copytree(root, dst, symlinks=True)
        snaps.append((label, state['acked'], state['inflight'], dst))

    def boundary(idx, op, rps):
        if other_fs and op in ('rename', 'replace', 'link') and len(rps) == 2 \
                and rps[0].startswith(tmpd + os.sep) \
                and rps[1].startswith(store + os.sep):
            raise OSError(errno.EXDEV, 'Invalid cross-device link')
        if state['inflight'] is not None and \
                any(r.startswith(store) for r in rps):
            snap(f'{op}#{idx}')
    def after_open(rps):
        if state['inflight'] is not None and \
                any(r.startswith(store) for r in rps):
            snap(f'opened#{w.jail.mut_count}')
    try:
        ctx = Ctx(w)
        si = ctx.connect()
        assert ctx.do(si, b'LOGIN alice pw').cond == 'OK'
        assert ctx.do(si, b'SELECT INBOX').cond == 'OK'
        st = ctx.do(si, b'FETCH 1:* (UID FLAGS)')
        view = [r.data['UID'] for r in st.untagged('FETCH')]
        w.jail.on_boundary = boundary
        w.jail.on_after_open = after_open

        def done(op, ok):
            # the state right after a mutating call is a crash point of its
            # own: data still sitting in a process buffer (not yet flushed by
            # close) is lost by a kill although the call has happened
            if ok and state['inflight'] is not None:
                snap(f'just-after-{op}#{w.jail.mut_count}')
        w.jail.on_done = done
        results = []
        by_cmd = []
        for k, ai in enumerate(hist):
            name, mk = ALPHABET[ai]
            line = mk(k)
            state['inflight'] = k
            st = ctx.do(si, line)
            state['inflight'] = None
            results.append((name, st.cond, st.raw[-100:]))
            n_before = len(acks)
            if st.cond == 'OK':
                record_ack(acks, name, line, st, view, ctx, si)
            # (an unacknowledged command may still have left traces; it is
            # treated as in flight for everything after it)
            state['acked'] = k + 1
            by_cmd.append(acks[n_before:])
            del acks[n_before:]
            snap(f'after-{k}-{name}')
        w.jail.on_boundary = None
        w.jail.on_after_open = None
        w.jail.on_done = None
        state['inflight'] = None
        ctx.do(si, b'LOGOUT')
        snap('clean-stop')
        ctx.harness_errors.clear()
        ctx.close()
    finally:
        if not w.closed:
            w.close()
    return snaps, (acks, by_cmd), snaproot, results


def record_ack(acks, name, line, st, view, ctx, si):
    if name.startswith('APPEND'):
        uv, uids = st.tagged.code_arg
        box = 'a' if name == 'APPEND-a' else 'INBOX'
        tok = TOKEN.search(line).group(1).decode()
        flags = (b'\\flagged',) if name.endswith('flags') else ()
        acks.append(('add', box, uv, int(uids), tok, flags))
    elif name in ('COPY1-a', 'MOVE1-a'):
        code = st.tagged.code_arg if st.tagged.code == b'COPYUID' else None
        for r in st.responses:
            if r.kind == 'untagged' and r.code == b'COPYUID':
                code = r.code_arg
        if code is not None:
            uv, src, dst = code
            acks.append(('copy', 'INBOX', int(src), 'a', uv, int(dst),
                         name.startswith('MOVE')))
    elif name.startswith('STORE'):
        for r in st.untagged('FETCH'):
            if 'FLAGS' in r.data:
                fl = tuple(sorted(f.lower() for f in r.data['FLAGS']
                                  if f.lower() != b'\\recent'))
                acks.append(('flags', 'INBOX', ('seq', r.num), fl))
    elif name == 'EXPUNGE':
        acks.append(('expunge', 'INBOX',
                     tuple(r.num for r in st.untagged('EXPUNGE'))))
    elif name == 'CREATE-a':
        acks.append(('create', 'a'))
    elif name == 'RENAME-a-b':
        acks.append(('rename', 'a', 'b'))
    elif name == 'SUBSCRIBE-a':
        acks.append(('subscribe', 'a'))


def expected(acks, n_acked, hist):
    """Durable facts implied by the first n_acked acknowledged commands.
    -> (boxes: {name: {uid: (token, flags|None, uidvalidity)}}, names, subs,
        touched)"""
    boxes = {'INBOX': {}}
    order = {'INBOX': []}
    names = {'INBOX'}
    subs = set()
    count = -2          # the two template adds come first
    for a in acks:
        if a[0] == 'unacked':
            continue
    k = 0
    cmd_index = -1
    # acks are appended in command order; template acks first (2 entries)
    seq_view = []       # INBOX view by position (uids), as the session sees
    idx = 0
    for a in acks[:2]:
        boxes['INBOX'][a[3]] = [a[4], (), a[2]]
        seq_view.append(a[3])
    per_cmd = acks[2:]
    # group by command: every command appends >= 1 entry
    return boxes, names, subs, per_cmd, seq_view


def recover_and_check(layout, snap, acks, hist, results):
    acks, by_cmd = acks
    label, n_acked, inflight, path = snap
    out = []
    inflight_name = ALPHABET[hist[inflight]][0] if inflight is not None \
        else None
    site = f'{layout}:{inflight_name or label.split("-")[0]}'
    rroot = scratch_root()
    with fsjail.unjailed():
        shutil.rmtree(rroot)
        shutil.copytree(path, rroot, symlinks=True)
    w = MaildirWorld(layout=layout, root=rroot, reuse=True,
                     users={'alice': ('pw', ())}, time_offset=700.0)
    w.own_root = True
    rep = {'layout': layout, 'history': [ALPHABET[i][0] for i in hist],
           'crash_at': label, 'inflight': inflight_name}

    def bad(rule, msg, s=None):
        out.append(Violation(rule, s or site, f'[{"/".join(rep["history"])} '
                             f'crash at {label}] {msg}', replay=rep))
    try:
        ctx = Ctx(w)
        si = ctx.connect()
        st = ctx.do(si, b'LOGIN alice pw')
        if st.cond != 'OK':
            bad('recovery.login', f'LOGIN after restart: {st.raw[-100:]!r}')
            return out
        st = ctx.do(si, b'LIST "" *')
        if st.cond != 'OK':
            bad('recovery.list', f'LIST: {st.raw[-100:]!r}')
            return out
        names = {r.data[2].decode() for r in st.untagged('LIST')
                 if not any(a.lower() == b'\\noselect' for a in r.data[0])}
        st = ctx.do(si, b'LSUB "" *')
        if st.cond != 'OK':
            bad('recovery.lsub', f'LSUB: {st.raw[-100:]!r}')
        subs = {r.data[2].decode() for r in st.untagged('LSUB')}
        dump = {}
        for nm in sorted(names):
            st = ctx.do(si, b'STATUS ' + nm.encode() +
                        b' (MESSAGES UIDNEXT UIDVALIDITY)')
            if st.cond != 'OK' or ctx.session(si).done:
                bad('recovery.status', f'STATUS {nm}: {st.raw[-120:]!r}')
                break
            stx = ctx.do(si, b'SELECT ' + nm.encode())
            if stx.cond != 'OK' or ctx.session(si).done:
                bad('recovery.select', f'SELECT {nm} after restart: '
                    f'{stx.raw[-120:]!r}')
                if ctx.session(si).done:
                    break
                continue
            uv = [r.code_arg for r in stx.responses
                  if r.kind == 'untagged' and r.code == b'UIDVALIDITY']
            sf = ctx.do(si, b'UID FETCH 1:* (UID FLAGS BODY.PEEK[])')
            if sf.cond != 'OK' or ctx.session(si).done:
                bad('recovery.fetch', f'FETCH in {nm}: {sf.raw[-120:]!r}')
                if ctx.session(si).done:
                    break
                continue
            rows = {}
            for r in sf.untagged('FETCH'):
                b = r.data.get(('BODY', b'', None))
                m = TOKEN.search(b or b'')
                rows[r.data['UID']] = (
                    m.group(1).decode() if m else None,
                    tuple(sorted(f.lower() for f in r.data.get('FLAGS', [])
                                 if f.lower() != b'\\recent')),
                    norm(b))
            dump[nm] = (uv[0] if uv else None, rows)
        ctx.harness_errors.clear()
        # ---- compare with the acknowledged-effects log ---------------------
        live = {}          # token -> [box, uid, uv, flags|None]
        for a in acks[:2]:
            live[a[4]] = ['INBOX', a[3], a[2], ()]
        view = [a[3] for a in acks[:2]]       # INBOX uids by position
        viewtok = [a[4] for a in acks[:2]]
        exist = {'INBOX'}
        subscribed = set()
        unsure_tokens = set()
        cmd = 0
        entries_by_cmd = by_cmd
        for k in range(len(results)):
            ents = entries_by_cmd[k]
            if k >= n_acked:
                break
            if inflight is not None and k >= inflight:
                break
            for a in ents:
                apply_ack(a, live, view, viewtok, exist, subscribed,
                          unsure_tokens)
        # the in-flight (or unacknowledged) commands may have touched these
        upto = inflight + 1 if inflight is not None else n_acked
        maybe_cmds = [results[k][0] for k in range(min(upto, len(results)))
                      if (inflight is not None and k >= inflight)
                      or results[k][1] != 'OK']
        touch_inbox_1 = any(c in ('STORE1+Seen', 'STORE1=Deleted', 'MOVE1-a',
                                  'EXPUNGE', 'COPY1-a') for c in maybe_cmds)
        rename_inflight = 'RENAME-a-b' in maybe_cmds
        for tok_, (box, uid, uv, flags) in live.items():
            tok = tok_.split('#')[0]
            boxes = [box]
            if rename_inflight and box == 'a':
                boxes = ['a', 'b']
            found = None
            for bx in boxes:
                if bx in dump:
                    for u, row in dump[bx][1].items():
                        if row[0] == tok and (found is None or u == uid):
                            found = (bx, u, row)
            first = viewtok and viewtok[0] == tok
            if found is None:
                if touch_inbox_1 and box == 'INBOX' and \
                        (first or 'EXPUNGE' in maybe_cmds):
                    # may have been moved / expunged by the unacknowledged
                    # command; MOVE must leave it somewhere
                    if 'MOVE1-a' in maybe_cmds:
                        anywhere = any(row[0] == tok for bx in dump
                                       for row in dump[bx][1].values())
                        if not anywhere and 'EXPUNGE' not in maybe_cmds \
                                and 'STORE1=Deleted' not in maybe_cmds:
                            bad('lost-in-move', f'message {tok} is in no '
                                f'mailbox after a crash during MOVE')
                    continue
                bad('acked-message-lost', f'acknowledged message {tok} '
                    f'(box {box}, UID {uid}) is not served after restart; '
                    f'{box} has { {u: r[0] for u, r in dump.get(box, (0, {}))[1].items()} }',
                    f'{layout}:{inflight_name or "clean"}:lost')
                continue
            bx, u, row = found
            if row[2] != norm(body(tok)):
                bad('acked-content-changed', f'{tok}: content {row[2]!r}')
            same_uv = dump[bx][0] == uv
            if same_uv and u != uid:
                bad('acked-uid-changed', f'{tok} had UID {uid} '
                    f'(UIDVALIDITY {uv}), now UID {u} with the same '
                    f'UIDVALIDITY')
            if flags is not None and row[1] != tuple(sorted(flags)) and \
                    not (touch_inbox_1 and box == 'INBOX'):
                bad('acked-flags-lost', f'{tok}: flags {row[1]}, '
                    f'acknowledged {tuple(sorted(flags))}')
        # no UID denotes a different message than it was acknowledged for
        for tok_, (box, uid, uv, flags) in live.items():
            tok = tok_.split('#')[0]
            if box in dump and dump[box][0] == uv:
                row = dump[box][1].get(uid)
                if row is not None and row[0] not in (tok, None) and \
                        not (touch_inbox_1 and box == 'INBOX'
                             and viewtok and viewtok[0] == tok):
                    bad('uid-reassigned', f'{box} UID {uid} was acknowledged '
                        f'for {tok}, now denotes {row[0]}')
        for nm in exist:
            alts = [nm] + (['b'] if nm == 'a' and rename_inflight else [])
            if not any(x in names for x in alts):
                bad('acked-mailbox-lost', f'mailbox {nm} acknowledged but '
                    f'not listed after restart ({sorted(names)})')
        for nm in subscribed:
            if nm in names and nm not in subs:
                bad('acked-subscription-lost', f'SUBSCRIBE {nm} acknowledged '
                    f'but LSUB gives {sorted(subs)}')
        # ---- a second life: the recovered server goes on working ----------
        # everything that lies in 'a' is moved (back) into INBOX, the server
        # is stopped cleanly and started again: INBOX must then hold exactly
        # what it held after the recovery plus what was moved, every message
        # once (a record left behind by the crash must not come back to life)
        if 'a' in dump and 'INBOX' in dump and dump['a'][1] and \
                not ctx.session(si).done and not out:
            before_in = sorted(str(r[0]) for r in dump['INBOX'][1].values())
            moved = sorted(str(r[0]) for r in dump['a'][1].values())
            if ctx.do(si, b'SELECT a').cond == 'OK':
                stm = ctx.do(si, b'MOVE 1:* INBOX')
                ctx.do(si, b'LOGOUT')
                ctx.harness_errors.clear()
                w.own_root = False          # the directory lives on
                ctx.close()
                w.close()
                if stm.cond != 'OK':
                    with fsjail.unjailed():
                        shutil.rmtree(rroot, ignore_errors=True)
                else:
                    w2 = MaildirWorld(layout=layout, root=rroot, reuse=True,
                                      users={'alice': ('pw', ())},
                                      time_offset=1400.0)
                    w2.own_root = True
                    try:
                        c2 = Ctx(w2)
                        s2 = c2.connect()
                        x1 = c2.do(s2, b'LOGIN alice pw')
                        x2 = c2.do(s2, b'SELECT INBOX')
                        sf = c2.do(s2, b'UID FETCH 1:* (UID BODY.PEEK[])')
                        if x1.cond != 'OK' or x2.cond != 'OK':
                            raise RuntimeError(f'second life: {x1.raw!r} '
                                               f'{x2.raw!r}')
                        got = []
                        for r in sf.untagged('FETCH'):
                            b = r.data.get(('BODY', b'', None))
                            mm = TOKEN.search(b or b'')
                            got.append((mm.group(1).decode() if mm else
                                        'None', r.data['UID']))
                        want = sorted(before_in + moved)
                        if sf.cond != 'OK' or \
                                sorted(t for t, _ in got) != want:
                            bad('second-life', f'after the recovery INBOX '
                                f'held {before_in} and a held {moved}; '
                                f'MOVE 1:* INBOX (OK), clean stop, restart: '
                                f'INBOX lists {sorted(got)}')
                        c2.harness_errors.clear()
                        c2.close()
                    finally:
                        if not w2.closed:
                            w2.close()
                return out
        ctx.close()
    finally:
        if not w.closed:
            w.close()
    return out


def split_entries(per_cmd, results):
    """acks were appended in command order; commands that answered OK append
    0..n entries, others one ('unacked', k, name).  Rebuild per-command
    lists using the 'unacked' markers and the kind of each entry."""
    out = [[] for _ in results]
    kinds = {'APPEND-INBOX': 'add', 'APPEND-INBOX-flags': 'add',
             'APPEND-a': 'add', 'STORE1+Seen': 'flags',
             'STORE1=Deleted': 'flags', 'COPY1-a': 'copy', 'MOVE1-a': 'copy',
             'EXPUNGE': 'expunge', 'CREATE-a': 'create',
             'RENAME-a-b': 'rename', 'SUBSCRIBE-a': 'subscribe',
             'CHECK': None}
    i = 0
    for k, (name, cond, _) in enumerate(results):
        if cond != 'OK':
            if i < len(per_cmd) and per_cmd[i][0] == 'unacked':
                i += 1
            continue
        want = kinds[name]
        while i < len(per_cmd) and want is not None and \
                per_cmd[i][0] == want:
            out[k].append(per_cmd[i])
            i += 1
            if want != 'flags':
                break
    return out


def apply_ack(a, live, view, viewtok, exist, subscribed, unsure):
    kind = a[0]
    if kind == 'add':
        _, box, uv, uid, tok = a[:5]
        flags = a[5] if len(a) > 5 else ()
        live[tok] = [box, uid, uv, flags]
        if box == 'INBOX':
            view.append(uid)
            viewtok.append(tok)
    elif kind == 'copy':
        _, sbox, suid, dbox, uv, duid, moved = a
        tok = None
        for t, (bx, u, _, fl) in live.items():
            if bx == sbox and u == suid:
                tok = t
        if tok is None:
            return
        if moved:
            live[tok] = [dbox, duid, uv, live[tok][3]]
            if suid in view:
                i = view.index(suid)
                view.pop(i)
                viewtok.pop(i)
        else:
            # the copy is a second message with the same token: track it
            live[tok + '#copy'] = [dbox, duid, uv, live[tok][3]]
    elif kind == 'flags':
        _, box, (_, seq), fl = a
        if 1 <= seq <= len(view):
            uid = view[seq - 1]
            for t, ent in live.items():
                if ent[0] == box and ent[1] == uid:
                    ent[3] = fl
    elif kind == 'expunge':
        _, box, seqs = a
        for s in seqs:
            if 1 <= s <= len(view):
                uid = view.pop(s - 1)
                tok = viewtok.pop(s - 1)
                live.pop(tok, None)
    elif kind == 'create':
        exist.add(a[1])
    elif kind == 'rename':
        exist.discard(a[1])
        exist.add(a[2])
        for ent in live.values():
            if ent[0] == a[1]:
                ent[0] = a[2]
    elif kind == 'subscribe':
        subscribed.add(a[1])


def _work(args):
    layout, hist, other_fs = args
    out = []
    try:
        snaps, acks, snaproot, results = run_history(layout, hist, other_fs)
    except AssertionError as exc:
        return [Violation('history-setup-failed', layout, repr(exc))], 0, 0
    try:
        for sn in snaps:
            vs = recover_and_check(layout, sn, acks, hist, results)
            # '#copy' tokens are bookkeeping only
            out += vs
    finally:
        with fsjail.unjailed():
            shutil.rmtree(snaproot, ignore_errors=True)
    oks = sum(1 for r in results if r[1] == 'OK')
    return out, len(snaps), oks


def _work_wrapped(args):
    return _work(args)


def run(*, tier, seed, jobs, progress, opts):
    with scratch_parent():
        return _run(tier=tier, seed=seed, jobs=jobs, progress=progress,
                    opts=opts)


def _run(*, tier, seed, jobs, progress, opts):
    t0 = time.perf_counter()
    maxlen = int(opts.get('len', 2 if tier == 'quick' else 3))
    hists = []
    for n in range(1, maxlen + 1):
        hists += list(itertools.product(range(len(ALPHABET)), repeat=n))
    # longer histories around a move whose message has changed its flags
    # since the folder was last scanned
    names = [n for n, _ in ALPHABET]
    extra = [('CREATE-a', 'STORE1+Seen', 'MOVE1-a'),
             ('CREATE-a', 'STORE1=Deleted', 'MOVE1-a'),
             ('CREATE-a', 'APPEND-INBOX-flags', 'MOVE1-a'),
             ('CREATE-a', 'COPY1-a', 'MOVE1-a'),
             ('CREATE-a', 'MOVE1-a', 'MOVE1-a'),
             ('CREATE-a', 'STORE1+Seen', 'COPY1-a')]
    if maxlen < 3:
        hists += [tuple(names.index(x) for x in h) for h in extra]
    tasks = []
    for layout in ('++', 'fs'):
        for h in hists:
            tasks.append((layout, h, False))
        # temp directory on another filesystem: every rename from it into the
        # store answers EXDEV
        for h in hists:
            if len(h) <= 2:
                tasks.append((layout, h, True))
    njobs = jobs or min(16, os.cpu_count() or 1)
    violations = []
    crash_states = 0
    acked = 0
    with mp.get_context('fork').Pool(njobs, maxtasksperchild=40) as pool:
        for k, (vs, n, oks) in enumerate(
                pool.imap_unordered(_work_wrapped, tasks, chunksize=2)):
            violations += vs
            crash_states += n
            acked += oks
            if progress and k % 40 == 0:
                print(f'  {k}/{len(tasks)} histories, {crash_states} crash '
                      f'states recovered, {len(violations)} raw violations, '
                      f't={time.perf_counter() - t0:.0f}s', flush=True)
    cov = {'evaluations': crash_states,
           'distinct_nontrivial': crash_states,
           'histories': len(tasks), 'max_history_length': maxlen,
           'acknowledged_commands': acked,
           'alphabet': [n for n, _ in ALPHABET],
           'layouts': ['++', 'fs'],
           'rule': ('every history <= max length over the alphabet x 2 '
                    'layouts (+ the EXDEV placement for the shorter ones); per '
                    'history every distinct disk state at a filesystem-call '
                    'boundary inside a command, after each command and at the '
                    'clean stop is recovered and compared; distinct = distinct '
                    '(tree digest, acknowledged prefix, in-flight command)'),
           'samples': [[ALPHABET[i][0] for i in h]
                       for _, h, _ in tasks[::max(1, len(tasks) // 8)]],
           'exhaustive': True}
    return finish(PROP, tier=tier, seed=seed, level='fault_enumeration',
                  coverage=cov, violations=violations, t0=t0, assumptions=[
                      'crash model = process kill between two filesystem '
                      'calls (no power-loss reordering, no torn sectors)',
                      'recovery after the lock expiry (600 s); content '
                      'compared modulo the CRLF->LF rewriting the maildir '
                      'backend applies on APPEND',
                      'messages the unacknowledged in-flight command could '
                      'touch may be in their before- or after-state'])


def replay(rec):
    print(rec['replay'])
    return 0
