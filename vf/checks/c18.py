"""C18 -- how an argument is spelled does not change what it means.

(a) sibling spellings (atom / quoted / {n} / {n+}, command-word case, extra
    spaces) of every command with string arguments, full product, on identical
    fresh worlds: same transcript (modulo tag and continuation requests) and
    same canonical state;
(b) mailbox names: all strings up to length 3 (thorough 4) over 17 characters
    created via literal; LIST and STATUS must report a modified-UTF-7 spelling
    that an independent decoder maps back to the name; encoder/decoder round
    trip at the seam to length 5;
(c) seam round trips parse(bytes(v) + tail) for bounded domains of
    SequenceSet, Flag, DateTime, strings, Mailbox, Number, List, ObjectId,
    FetchAttribute, StatusAttribute."""
from __future__ import annotations

import itertools
import multiprocessing as mp
import os
import re
import time

from ..canon import dict_world_key
from ..driver import Ctx
from ..explore import _digest
from ..refmodel import mutf7
from ..report import Violation, finish
from ..worlds import DictWorld

PROP = 'C18'

ATOM_SAFE = re.compile(rb'^[\x21\x23-\x24\x26-\x27\x2b-\x5b\x5e-\x7a\x7c\x7e]+$')


class S:
    """A string-typed argument value."""

    def __init__(self, v: bytes, atom_ok: bool = True) -> None:
        self.v = v
        self.atom_ok = atom_ok


def spellings(v: bytes, atom_ok: bool = True):
    out = []
    if atom_ok and ATOM_SAFE.match(v) and v.upper() != b'NIL':
        out.append(('atom', v))
    if not any(c in v for c in b'\r\n\0'):
        out.append(('quoted', b'"' + v.replace(b'\\', b'\\\\')
                    .replace(b'"', b'\\"') + b'"'))
    out.append(('lit+', b'{%d+}\r\n' % len(v) + v))
    out.append(('lit', ('SYNC', v)))
    return out


TEMPLATES = [
    # (state, parts) ; parts are bytes or S
    ('nonauth', [b'LOGIN ', S(b'demouser'), b' ', S(b'demopass')]),
    ('auth', [b'SELECT ', S(b'Sent')]),
    ('auth', [b'EXAMINE ', S(b'INBOX')]),
    ('auth', [b'CREATE ', S(b'New')]),
    ('auth', [b'CREATE ', S(b'a b')]),
    # values that look like protocol syntax themselves
    ('auth', [b'CREATE ', S(b'xx{3+}', False)]),
    ('auth', [b'CREATE ', S(b'{3}', False)]),
    ('nonauth', [b'LOGIN ', S(b'demouser'), b' ', S(b'abc{3+}', False)]),
    ('auth', [b'RENAME ', S(b'Sent'), b' ', S(b'y {1+}', False)]),
    ('auth', [b'DELETE ', S(b'Sent')]),
    ('auth', [b'RENAME ', S(b'Sent'), b' ', S(b'Sent2')]),
    ('auth', [b'SUBSCRIBE ', S(b'Sent')]),
    ('auth', [b'STATUS ', S(b'Sent'), b' (MESSAGES UIDNEXT)']),
    ('auth', [b'LIST ', S(b''), b' ', S(b'S*')]),
    ('auth', [b'LIST ', S(b'Se'), b' ', S(b'%')]),
    ('auth', [b'LSUB ', S(b''), b' ', S(b'*')]),
    ('auth', [b'APPEND ', S(b'Sent'), b' (\\Seen) ',
              S(b'A: b\r\n\r\nbody\r\n')]),
    # above the 4096-byte limit that applies to literals of other commands
    ('auth', [b'APPEND ', S(b'Sent'), b' ',
              S(b'A: b\r\n\r\n' + b'0123456789' * 500 + b'\r\n')]),
    # string arguments around the 4096-byte limit of the other commands:
    # whatever the limit is, it cannot depend on the spelling
    ('auth', [b'CREATE ', S(b'n' * 4096)]),
    ('auth', [b'CREATE ', S(b'n' * 4097)]),
    ('auth', [b'STATUS ', S(b'n' * 5000), b' (MESSAGES)']),
    ('nonauth', [b'LOGIN ', S(b'demouser'), b' ', S(b'p' * 5000)]),
    ('selected', [b'SEARCH SUBJECT ', S(b's' * 4097)]),
    ('selected', [b'COPY 1 ', S(b'Sent')]),
    ('selected', [b'MOVE 2 ', S(b'Trash2')]),
    ('selected', [b'SEARCH SUBJECT ', S(b'question')]),
    ('selected', [b'SEARCH HEADER ', S(b'Subject'), b' ', S(b'random')]),
    ('selected', [b'SEARCH FROM ', S(b'friend'), b' TO ', S(b'me')]),
    ('selected', [b'UID SEARCH TEXT ', S(b'know'), b' BODY ', S(b'that')]),
    ('selected', [b'FETCH 1 (BODY.PEEK[HEADER.FIELDS (', S(b'Subject'), b' ',
                  S(b'To'), b')])']),
    ('selected', [b'SEARCH CHARSET ', S(b'UTF-8'), b' SUBJECT ',
                  S(b'question')]),
    # RFC 2971: ID parameters are strings, never atoms
    ('auth', [b'ID (', S(b'name', False), b' ', S(b'x y', False), b')']),
    ('selected', [b'STORE 1 +FLAGS (\\Flagged)']),
    ('selected', [b'FETCH 1:2 (FLAGS UID)']),
    ('selected', [b'EXPUNGE']),
    ('nonauth', [b'CAPABILITY']),
]


def case_variants(parts):
    first = parts[0]
    m = re.match(rb'^([A-Za-z]+(?: [A-Z]+)?)', first)
    word = m.group(1)
    rest = first[len(word):]
    outs = [word.upper(), word.lower(),
            bytes(c ^ 0x20 if i % 2 else c for i, c in enumerate(word)
                  ) if word.isalpha() else word.title()]
    seen = []
    for w in outs:
        if w not in seen:
            seen.append(w)
    return [[w + rest] + parts[1:] for w in seen]


def render(parts, combo):
    """-> list of chunks (first line, continuation chunks...)."""
    chunks = [b'']
    it = iter(combo)
    for p in parts:
        if isinstance(p, S):
            kind, sp = next(it)
            if kind == 'lit':
                chunks[-1] += b'{%d}\r\n' % len(sp[1])
                chunks.append(sp[1])
            else:
                chunks[-1] += sp
        else:
            chunks[-1] += p
    return chunks


def build_world(state):
    w = DictWorld(demo_data=True, users={})
    ctx = Ctx(w)
    ctx.connect()
    if state in ('auth', 'selected'):
        assert ctx.do(0, b'LOGIN demouser demopass').cond == 'OK'
        assert ctx.do(0, b'CREATE Trash2').cond == 'OK'
    if state == 'selected':
        assert ctx.do(0, b'SELECT INBOX').cond == 'OK'
    return ctx


_IDS = re.compile(rb'\b[FMT][0-9a-f]{32}\b')


def normalise(raw: bytes, tag: bytes) -> bytes:
    lines = []
    for ln in raw.split(b'\r\n'):
        if ln.startswith(b'+ '):
            continue
        if ln.startswith(tag + b' '):
            ln = b'TAG ' + ln[len(tag) + 1:]
        lines.append(ln)
    out = b'\r\n'.join(lines)
    ids = {}
    out = _IDS.sub(lambda m: ids.setdefault(m.group(0),
                                            b'ID%d' % len(ids)), out)
    return out


def run_spelling(state, chunks):
    ctx = build_world(state)
    try:
        s = ctx.session(0)
        s.tagno += 1
        tag = b'z9'
        raw = b''
        data, rs = ctx.world.send(s, tag + b' ' + chunks[0] + b'\r\n')
        raw += data
        for ch in chunks[1:]:
            if not (rs and rs[-1].kind == 'cont'):
                break
            data, rs = ctx.world.send(s, ch if ch is not chunks[-1]
                                      else ch)
            raw += data
            # after a literal the rest of the line follows in the next chunk
        # the remaining text after the last literal is already appended by
        # render() to the chunk that follows; terminate the line
        if chunks[1:] and not any(r.kind == 'tagged' for r in s.responses[-3:]):
            pass
        key = _digest(dict_world_key(ctx.world))
        return normalise(raw, tag), key, bytes(raw)
    finally:
        ctx.close()


def sibling_tasks(tier):
    T = []
    for ti, (state, parts) in enumerate(TEMPLATES):
        svals = [p for p in parts if isinstance(p, S)]
        for cv in case_variants(parts):
            combos = list(itertools.product(*[spellings(p.v, p.atom_ok)
                                              for p in svals]))
            for combo in combos:
                T.append((ti, state, cv, combo, False))
            # doubled spaces (pymap accepts extra spaces in most positions)
            if tier != 'quick' or cv is not None:
                dbl = [p.replace(b' ', b'  ') if isinstance(p, bytes) and i > 0
                       else p for i, p in enumerate(cv)]
                if dbl != cv and combos:
                    T.append((ti, state, dbl, combos[0], True))
    return T


def _sib(args):
    ti, state, parts, combo, spaced = args
    # chunks: text after a sync literal belongs to the same chunk as the
    # literal payload
    chunks = [b'']
    it = iter(combo)
    for p in parts:
        if isinstance(p, S):
            kind, sp = next(it)
            if kind == 'lit':
                chunks[-1] += b'{%d}' % len(sp[1])
                chunks.append(sp[1])
            else:
                chunks[-1] += sp
        else:
            chunks[-1] += p
    # send: first chunk + CRLF; each later chunk as payload + following text,
    # CRLF after the last one
    ctx = build_world(state)
    try:
        s = ctx.session(0)
        tag = b'z9'
        raw = b''
        data, rs = ctx.world.send(s, tag + b' ' + chunks[0] + b'\r\n')
        raw += data
        for ch in chunks[1:]:
            if not (rs and rs[-1].kind == 'cont'):
                break
            data, rs = ctx.world.send(s, ch + b'\r\n')
            raw += data
        key = _digest(dict_world_key(ctx.world))
        label = ','.join(k for k, _ in combo) + ('/spaced' if spaced else '')
        return ti, label, normalise(raw, tag), key, \
            b' | '.join(chunks)[:200], spaced
    finally:
        ctx.close()


# ---- (b) names --------------------------------------------------------------

# the last four are chosen by base64 digit class of their UTF-16 form: first
# digit '+' (U+F8FF) and '/' -> ',' (U+FC00), last digit '+' (U+013E) and
# '/' -> ',' (U+013F) when they end a run of 3k characters
NAME_CHARS = ['a', '&', '-', '/', '+', ',', '~', '\n', '\t', '\x7f', 'é', '日',
              '\U0001F600', '\uf8ff', '\ufc00', '\u013e', '\u013f',
              # names that are not in a Unicode normal form: a combining mark
              # (after 'a': NFC would compose it) and a singleton (OHM SIGN)
              '\u0301', '\u2126']


def _names(args):
    names = args
    out = []
    n = 0
    ctx = build_world('auth')
    try:
        for k, name in enumerate(names):
            if k % 100 == 99:
                ctx.close()
                ctx = build_world('auth')
            if has_empty(name) or name.upper() == 'INBOX':
                continue
            enc = mutf7.encode(name)
            L = b'{%d+}\r\n%s' % (len(enc), enc)
            st = ctx.do(0, b'CREATE ' + L)
            n += 1
            if st.cond != 'OK':
                continue
            site = 'name:' + ''.join(
                'c' if ord(c) < 32 or ord(c) == 127 else
                'U' if ord(c) > 127 else c for c in name)[:8]
            st = ctx.do(0, b'LIST "" *')
            got = []
            for r in st.untagged('LIST'):
                try:
                    got.append(mutf7.decode(r.data[2]))
                except mutf7.DecodeError:
                    got.append(('undecodable', r.data[2]))
            if name not in got:
                out.append(Violation('name-not-preserved.list', site,
                           f'created {name!r} (wire {enc!r}); LIST reports '
                           f'{[g for g in got if g not in ("INBOX", "Sent", "Trash", "Trash2")]!r}',
                           replay={'name': name}))
            st = ctx.do(0, b'STATUS ' + L + b' (MESSAGES)')
            rows = st.untagged('STATUS')
            if st.cond != 'OK' or not rows:
                out.append(Violation('name-not-preserved.status', site,
                           f'STATUS of {name!r}: {st.raw[-100:]!r}',
                           replay={'name': name}))
            else:
                try:
                    back = mutf7.decode(rows[0].data[0])
                except mutf7.DecodeError:
                    back = ('undecodable', rows[0].data[0])
                if back != name:
                    out.append(Violation('name-not-preserved.status', site,
                               f'STATUS reports {back!r} for {name!r}',
                               replay={'name': name}))
            ctx.do(0, b'DELETE ' + L)
            for h in ctx.harness_errors:
                out.append(Violation('unparseable-output', site, h))
                ctx.harness_errors.clear()
                ctx.close()
                ctx = build_world('auth')
    finally:
        ctx.close()
    return out, n


def has_empty(name):
    return any(p == '' for p in name.split('/'))


# ---- (c) seam round trips ---------------------------------------------------

TAILS = [b'\r\n', b' x\r\n', b')\r\n', b']', b'']


def seam_roundtrips(tier):
    from pymap.parsing import Params
    from pymap.parsing.modutf7 import modutf7_encode, modutf7_decode
    from pymap.parsing.primitives import Number, QuotedString, LiteralString, \
        List, Atom
    from pymap.parsing.specials import SequenceSet, Flag, DateTime, AString, \
        Mailbox, ObjectId, FetchAttribute, StatusAttribute
    out = []
    n = 0

    def bad(rule, site, msg):
        out.append(Violation(rule, site, msg))
    # modified UTF-7 at the seam
    L = 6 if tier != 'quick' else 5
    for k in range(0, L + 1):
        for combo in itertools.product(
                ['a', '&', '-', '+', ',', '\n', 'é', '\uf8ff', '\u013e', '\u013f',
                 '\U0001F600'], repeat=k):
            s = ''.join(combo)
            n += 1
            try:
                e = modutf7_encode(s)
                d = modutf7_decode(e)
            except Exception as exc:   # noqa
                bad('seam.modutf7', 'exception', f'{s!r}: {exc!r}')
                continue
            if d != s:
                bad('seam.modutf7', 'roundtrip', f'{s!r} -> {e!r} -> {d!r}')
            elif e != mutf7.encode(s):
                bad('seam.modutf7', 'encoding-differs',
                    f'{s!r}: pymap {e!r}, RFC 3501 5.1.3 {mutf7.encode(s)!r}')
    params = Params()

    def rt(cls, wire: bytes, name, tails=TAILS, reser=True):
        nonlocal n
        for tail in tails:
            n += 1
            buf = memoryview(wire + tail)
            try:
                v, rest = cls.parse(buf, params)
            except Exception as exc:   # noqa
                if tail in (b'', b']') and cls in (Atom, AString, Number,
                                                   SequenceSet, Flag):
                    continue
                bad('seam.parse-refused', name,
                    f'{cls.__name__}.parse({wire + tail!r}): {exc!r}')
                continue
            if bytes(rest) != tail:
                bad('seam.consumed', name,
                    f'{cls.__name__}.parse({wire + tail!r}) left '
                    f'{bytes(rest)!r}, expected {tail!r}')
                continue
            if not reser:
                continue
            again = bytes(v)
            try:
                v2, rest2 = cls.parse(memoryview(again + b'\r\n'), params)
            except Exception as exc:   # noqa
                bad('seam.reparse', name, f'{cls.__name__}: bytes(parse('
                    f'{wire!r})) = {again!r} does not parse: {exc!r}')
                continue
            same = (v2 == v) if type(v).__eq__ is not object.__eq__ else True
            val = getattr(v, 'value', None)
            val2 = getattr(v2, 'value', None)
            if val != val2 or bytes(rest2) != b'\r\n':
                bad('seam.roundtrip', name,
                    f'{cls.__name__}: {wire!r} -> {val!r} -> {again!r} -> '
                    f'{val2!r} (rest {bytes(rest2)!r})')
    for s in [b'1', b'1:2', b'2:1', b'*', b'1:*', b'*:1', b'1,2', b'1,3:5,9',
              b'4294967295', b'1,1', b'5:5']:
        rt(SequenceSet, s, 'SequenceSet')
    for f in [b'\\Seen', b'\\seen', b'\\SEEN', b'kw', b'$Forwarded',
              b'\\Recent', b'\\Bogus', b'a-b.c']:
        rt(Flag, f, 'Flag')
    for d in [b'"01-Jan-2020 00:00:00 +0000"', b'" 1-Jan-2020 00:00:00 +0000"',
              b'"31-Dec-1999 23:59:59 -1200"', b'"29-Feb-2020 12:00:00 +1400"',
              b'"01-Jan-2020 00:00:00 -0000"', b'"15-jun-2021 07:08:09 +0530"']:
        rt(DateTime, d, 'DateTime')
    strs = [b'', b'abc', b'a b', b'a"b', b'a\\b', b'\xe9', b'a]b', b'(', b'{3}',
            b'%', b'*', b'NIL']
    for s in strs:
        q = b'"' + s.replace(b'\\', b'\\\\').replace(b'"', b'\\"') + b'"'
        rt(QuotedString, q, 'QuotedString')
        rt(AString, q, 'AString-quoted')
        for tail in TAILS:
            n += 1
            w = b'{%d+}\r\n' % len(s) + s
            try:
                v, rest = LiteralString.parse(memoryview(w + tail), params)
                if v.value != s or bytes(rest) != tail:
                    bad('seam.consumed', 'LiteralString',
                        f'{w + tail!r} -> {v.value!r} rest {bytes(rest)!r}')
            except Exception as exc:   # noqa
                bad('seam.parse-refused', 'LiteralString', f'{w!r}: {exc!r}')
    NOBR = [t for t in TAILS if t != b']']    # ']' is an ASTRING-CHAR
    for s in [b'abc', b'a.b', b'INBOX', b'inbox', b'a]b', b'&AOk-', b'a&-b']:
        rt(AString, s, 'AString-atom', NOBR)
    for s in [b'INBOX', b'inbox', b'Sent', b'&AOk-', b'"a b"', b'a/b', b'"a\\"b"',
              b'&ZeVnLIqe-', b'a&-b', b'"&AOk-&-"']:
        rt(Mailbox, s, 'Mailbox', NOBR)
    for s in [b'0', b'1', b'007', b'4294967295', b'99999999999999999999']:
        rt(Number, s, 'Number')
    for s in [b'M' + b'0' * 32, b'Fabc', b'T-_9']:
        rt(ObjectId, s, 'ObjectId')
    for s in [b'FLAGS', b'flags', b'BODY[]', b'BODY.PEEK[]', b'BODY[1.2]',
              b'BODY[HEADER]', b'BODY[1.MIME]', b'BODY[]<0.10>',
              b'BODY[HEADER.FIELDS (A B)]', b'BODY[HEADER.FIELDS.NOT (A)]',
              b'RFC822.SIZE', b'BINARY[1]', b'BINARY.PEEK[]', b'BINARY.SIZE[2]',
              b'ENVELOPE', b'BODYSTRUCTURE', b'EMAILID', b'UID',
              b'BODY[TEXT]<5.5>', b'body[header.fields (subject)]']:
        # (bytes() of a fetch attribute is its *response* form: .PEEK and the
        # partial length are dropped by design, so no re-serialisation check)
        rt(FetchAttribute, s, 'FetchAttribute', NOBR,
           reser=(b'PEEK' not in s.upper() and b'<' not in s))
    for s in [b'MESSAGES', b'recent', b'UIDNEXT', b'UIDVALIDITY', b'UNSEEN',
              b'MAILBOXID']:
        rt(StatusAttribute, s, 'StatusAttribute')
    return out, n


def run(*, tier, seed, jobs, progress, opts):
    t0 = time.perf_counter()
    violations = []
    njobs = jobs or min(16, os.cpu_count() or 1)
    sibs = sibling_tasks(tier)
    maxlen = 3 if tier == 'quick' else 4
    names = []
    for k in range(1, maxlen + 1):
        for combo in itertools.product(NAME_CHARS, repeat=k):
            names.append(''.join(combo))
    evals = 0
    with mp.get_context('fork').Pool(njobs) as pool:
        groups: dict = {}
        for ti, label, norm, key, wire, spaced in pool.imap_unordered(
                _sib, sibs, chunksize=8):
            evals += 1
            groups.setdefault(ti, []).append((label, norm, key, wire, spaced))
        for ti, rows in sorted(groups.items()):
            base = [r for r in rows if not r[4]]
            ref = min(base, key=lambda r: (r[0], r[3]))
            tname = ref[3].split(b' ')[0].decode().upper()
            for label, norm, key, wire, spaced in rows:
                if spaced and b' BAD ' in norm and b' BAD ' not in ref[1]:
                    continue        # extra spaces are not "legal" there
                if norm != ref[1]:
                    violations.append(Violation(
                        'sibling-transcript', f'{tname}:{label}',
                        f'{wire!r} answered {norm!r:.200}; sibling '
                        f'{ref[3]!r} answered {ref[1]!r:.200}',
                        replay={'wire': wire}))
                elif key != ref[2]:
                    violations.append(Violation(
                        'sibling-state', f'{tname}:{label}',
                        f'{wire!r} left a different state than {ref[3]!r}',
                        replay={'wire': wire}))
        chunk = max(50, len(names) // (njobs * 4))
        for vs, n in pool.imap_unordered(
                _names, [names[i:i + chunk]
                         for i in range(0, len(names), chunk)]):
            violations += vs
            evals += n
    vs, n = seam_roundtrips(tier)
    violations += vs
    evals += n
    cov = {'evaluations': evals,
           'distinct_nontrivial': len(sibs) + len(set(names)),
           'sibling_spellings': len(sibs), 'templates': len(TEMPLATES),
           'names': len(names), 'name_alphabet': [repr(c) for c in NAME_CHARS],
           'seam_roundtrips': n,
           'rule': ('(a) per template the full product of spellings of all '
                    'string arguments x 3 command-word cases (+ doubled '
                    'spaces), each on a fresh identical world; (b) all names '
                    '<= 3 (thorough 4) over 17 characters; (c) seam round '
                    'trips in 5 trailing contexts; distinct = distinct wire '
                    'spellings + distinct names'),
           'samples': [repr(s[2])[:80] for s in sibs[::max(1, len(sibs) // 8)]],
           'exhaustive': True}
    return finish(PROP, tier=tier, seed=seed, level='exploration',
                  coverage=cov, violations=violations, t0=t0, assumptions=[
                      'dict backend with demo data',
                      'doubled spaces are only compared where the server '
                      'accepts them'])


def replay(rec):
    print(rec['replay'])
    return 0
