"""Machinery self-tests run by setup_cmd (fast)."""
from __future__ import annotations


def run(*, tier, seed, jobs, progress, opts):
    from .. import respparse
    ok = b'* 1 FETCH (FLAGS (\\Seen) UID 3 BODY[] {3}\r\nabc)\r\na OK done\r\n'
    rs, n, err = respparse.parse_stream(ok)
    assert err is None and len(rs) == 2 and n == len(ok), (rs, err)
    for bad in (b'* 1 FETCH (FLAGS (\\Seen)\r\n', b'* LIST () "/" "a\rb"\r\n',
                b'* 1 FETCH (BODY[] {5}\r\nabc)\r\n', b'a OK x\n'):
        rs, n, err = respparse.parse_stream(bad)
        assert err is not None, bad
    from ..worlds import DictWorld
    w = DictWorld(demo_data=True, users={})
    s = w.connect()
    tag, data, rs = w.cmd(s, b'LOGIN demouser demopass')
    assert rs and rs[-1].name == 'OK', data
    w.close()
    print('selftest ok')
    return 0


def replay(rec):
    return 0
