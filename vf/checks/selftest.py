"""Machinery self-tests run by setup_cmd (fast)."""
from __future__ import annotations


def run(*, tier, seed, jobs, progress, opts):
    from .. import respparse
    ok = b'* 1 FETCH (FLAGS (\\Seen) UID 3 BODY[] {3}\r\nabc)\r\na OK done\r\n'
    rs, n, err = respparse.parse_stream(ok)
    assert err is None and len(rs) == 2 and n == len(ok), (rs, err)
    for bad in (b'* 1 FETCH (FLAGS (\\Seen)\r\n', b'* LIST () "/" "a\rb"\r\n',
                b'* 1 FETCH (BODY[] {5}\r\nabc)\r\n', b'a OK x\n'):
        rs, n, err = respparse.parse_stream(bad)
        assert err is not None, bad
    from ..worlds import DictWorld
    w = DictWorld(demo_data=True, users={})
    s = w.connect()
    tag, data, rs = w.cmd(s, b'LOGIN demouser demopass')
    assert rs and rs[-1].name == 'OK', data
    w.close()
    # E7: the same schedule replayed twice gives identical observations, a
    # deviating schedule is really different, and a choice that does not
    # exist is a hard error
    from ..worlds import scratch_parent
    from ..procs import ScheduleError
    from . import mtmaildir as mt
    from . import c04mt
    names = ('APPEND', 'SELECT')
    pre = [c04mt.PROGRAMS[n][0](i) for i, n in enumerate(names)]
    progs = [c04mt.PROGRAMS[n][1](i) for i, n in enumerate(names)]
    with scratch_parent():
        obs = []
        for prefix in ([], [0] * 12 + [1], [0] * 12 + [1]):
            ex, info = mt.run_schedule('++', progs, prefix, pre=pre)
            obs.append(([(e[0],) + tuple(e[1:2]) for e in ex.trace],
                        [(r.name, r.code_arg) for res in info['results']
                         for _, r, _ in res],
                        [v[2] for v in info['final'].values()]))
        assert obs[1] == obs[2], 'E7 replay is not deterministic'
        assert obs[0][0] != obs[1][0], 'E7 deviation did not change the run'
        try:
            mt.run_schedule('++', progs, [7], pre=pre)
        except ScheduleError:
            pass
        else:
            raise AssertionError('out-of-range E7 choice was not refused')
        mt.drop_templates()
    print('selftest ok')
    return 0


def replay(rec):
    return 0
