"""C17 -- \\Recent is announced to exactly one session and never stored.

BFS over select/examine/close/deliver histories of <= 3 sessions on the dict
backend (weak-set order as an explicit choice), with a reference recency
model: every message is 'pending' (arrived while no read-write selection of
the mailbox existed) or 'assignable' (arrived while one existed)."""
from __future__ import annotations

import time

from ..canon import dict_world_key
from ..driver import Ctx
from ..explore import bfs, run_history
from ..report import Violation, finish
from ..worlds import DictWorld, OrderedWeakSet
from .seqmodel import lit, msg

PROP = 'C17'

PER_SESSION = [
    ('SELECT-INBOX', b'SELECT INBOX'),
    ('EXAMINE-INBOX', b'EXAMINE INBOX'),
    ('SELECT-Other', b'SELECT Other'),
    ('EXAMINE-Other', b'EXAMINE Other'),
    ('CLOSE', b'CLOSE'),
    ('RELOGIN', None),
    ('NOOP', b'NOOP'),
    ('FETCHall', b'FETCH 1:* (UID FLAGS)'),
    ('STATUS-RECENT', b'STATUS INBOX (RECENT)'),
    ('STORE+Recent', b'STORE 1 +FLAGS (\\Recent)'),
    ('STORE-Recent', b'STORE 1 -FLAGS (\\Recent)'),
    ('STOREall=Recent', b'STORE 1:* FLAGS.SILENT (\\Recent)'),
    ('SEARCH-RECENT', b'SEARCH RECENT'),
    ('APPEND', b'APPEND INBOX ' + lit(msg(7))),
    ('APPEND-Recent-flag', b'APPEND INBOX (\\Recent \\Seen) ' + lit(msg(8))),
    ('COPY1-INBOX', b'COPY 1 INBOX'),
    ('COPYlast-INBOX', b'COPY * INBOX'),
    ('MOVE1-INBOX', b'MOVE 1 INBOX'),
    ('SELECT-missing', b'SELECT Missing'),
]
GLOBAL = [('DELIVER', b'APPEND INBOX ' + lit(msg(6))), ('ROTATE', None)]


class Rec:
    """Reference recency bookkeeping for INBOX."""

    def __init__(self) -> None:
        self.status: dict[int, str] = {}       # uid -> pending|assignable
        self.seen_rw: dict[int, set] = {}      # uid -> {(slot, epoch)}
        self.sel: dict[int, tuple | None] = {}  # slot -> (mbx, ro, epoch)
        self.epoch = 0
        self.last_recent: dict[int, int | None] = {}   # slot -> last count

    def rw_inbox_live(self) -> bool:
        return any(v is not None and v[0] == 'INBOX' and not v[1]
                   for v in self.sel.values())

    def key(self):
        return (tuple(sorted(self.status.items())),
                tuple(sorted((u, tuple(sorted(s)))
                             for u, s in self.seen_rw.items())),
                tuple(sorted((k, v) for k, v in self.sel.items())),
                tuple(sorted(self.last_recent.items())))


class Model:
    name = 'c17'

    def __init__(self, nsess=2, cmds=None, kind='dict', pre=()) -> None:
        self.nsess = nsess
        self.kind = kind
        # a non-initial start state: events (session, name) applied in new()
        self.pre = [tuple(x) for x in pre]
        names = cmds or [n for n, _ in PER_SESSION]
        self.params = {'nsess': nsess, 'cmds': names, 'kind': kind,
                       'pre': [list(x) for x in self.pre]}
        table = dict(PER_SESSION)
        self._alpha = []
        for s in range(nsess):
            for n in names:
                self._alpha.append({'s': s, 'name': n, 'line': table[n]})
        for n, line in GLOBAL:
            if n == 'ROTATE' and kind != 'dict':
                continue       # maildir selections are per session
            self._alpha.append({'s': -1, 'name': n, 'line': line})

    def alphabet(self):
        return self._alpha

    def new(self):
        if self.kind == 'dict':
            w = DictWorld(users={'alice': ('pw', ())})
        else:
            from ..worlds import MaildirWorld
            w = MaildirWorld(layout=self.kind, users={'alice': ('pw', ())},
                             jail_cheap=True)
        ctx = Ctx(w)
        ctx.extra['hist'] = []
        rec = Rec()
        ctx.extra['rec'] = rec
        ctx.extra['slots'] = {}
        # delivery agent: connection that never selects anything
        d = ctx.connect()
        assert ctx.do(d, b'LOGIN alice pw').cond == 'OK'
        ctx.extra['agent'] = d
        assert ctx.do(d, b'CREATE Other').cond == 'OK'
        for i in (1, 2):
            st = ctx.do(d, b'APPEND INBOX ' + lit(msg(i)))
            assert st.cond == 'OK'
        assert ctx.do(d, b'APPEND Other ' + lit(msg(3))).cond == 'OK'
        if self.kind != 'dict':
            # an observer that only ever EXAMINEs (claims nothing)
            o = ctx.connect()
            assert ctx.do(o, b'LOGIN alice pw').cond == 'OK'
            ctx.extra['observer'] = o
        for uid in self._inbox_uids(ctx):
            rec.status[uid] = 'pending'
            rec.seen_rw[uid] = set()
        for s in range(self.nsess):
            si = ctx.connect()
            assert ctx.do(si, b'LOGIN alice pw').cond == 'OK'
            ctx.extra['slots'][s] = si
            rec.sel[s] = None
            rec.last_recent[s] = None
        ctx.steps.clear()
        for sess, nm in self.pre:
            idx = [i for i, e in enumerate(self._alpha)
                   if e['s'] == sess and e['name'] == nm][0]
            vs = self.apply(ctx, idx)
            assert not vs, ('start state already violates', vs)
        ctx.extra['hist'] = []
        ctx.steps.clear()
        return ctx

    def enabled(self, ctx):
        rec: Rec = ctx.extra['rec']
        out = []
        for i, ev in enumerate(self._alpha):
            n = ev['name']
            if ev['s'] < 0:
                if n == 'ROTATE':
                    live = sum(1 for v in rec.sel.values()
                               if v is not None and not v[1])
                    if live >= 2 and OrderedWeakSet.rotation < live - 1:
                        out.append(i)
                else:
                    out.append(i)
                continue
            sel = rec.sel[ev['s']]
            if n in ('CLOSE', 'NOOP', 'FETCHall', 'STORE+Recent',
                     'STORE-Recent', 'STOREall=Recent', 'SEARCH-RECENT',
                     'COPY1-INBOX', 'COPYlast-INBOX', 'MOVE1-INBOX') \
                    and sel is None:
                continue
            out.append(i)
        return out

    # ------------------------------------------------------------------
    def _inbox(self, ctx):
        return ctx.world.mailbox_set('alice')._inbox

    def _inbox_uids(self, ctx):
        """The UIDs in INBOX right now (dict: glass-box; maildir: through an
        observer connection that examines, which claims nothing)."""
        if self.kind == 'dict':
            return set(self._inbox(ctx)._messages)
        o = ctx.extra['observer']
        assert ctx.do(o, b'EXAMINE INBOX').cond == 'OK'
        st = ctx.do(o, b'UID SEARCH ALL')
        rows = st.untagged('SEARCH')
        ctx.do(o, b'CLOSE')
        return set(rows[0].data) if rows else set()

    def _sightings(self, ctx, slot, si, responses, out, name):
        """Record every message shown with \\Recent to session si."""
        rec: Rec = ctx.extra['rec']
        sel = rec.sel.get(slot) if slot is not None else None
        if sel is None or sel[0] != 'INBOX':
            return
        s = ctx.session(si)
        srv = s.state._selected
        if srv is None:
            return
        order = list(srv.messages._sorted)
        for r in responses:
            uids = []
            if r.kind != 'untagged':
                continue
            if r.name == 'FETCH' and 'FLAGS' in r.data and \
                    any(f.lower() == b'\\recent' for f in r.data['FLAGS']):
                if 'UID' in r.data:
                    uids = [r.data['UID']]
                elif 1 <= r.num <= len(order):
                    uids = [order[r.num - 1]]
            elif r.name == 'SEARCH' and ctx.last is not None and \
                    ctx.last.sent and b'SEARCH RECENT' in ctx.last.sent[0] \
                    and ctx.last.si == si:
                uids = [order[n - 1] for n in r.data if 1 <= n <= len(order)]
            elif r.name == 'RECENT':
                rec.last_recent[slot] = r.num
            for uid in uids:
                if sel[1]:
                    continue          # read-only selections may show it
                seen = rec.seen_rw.setdefault(uid, set())
                seen.add((slot, sel[2]))
                if len(seen) > 1:
                    out.append(Violation(
                        'recent-twice', name,
                        f'UID {uid} shown \\Recent to read-write selections '
                        f'{sorted(seen)}'))

    def apply(self, ctx, i):
        ev = self._alpha[i]
        rec: Rec = ctx.extra['rec']
        name = ev['name']
        out = []
        if name == 'ROTATE':
            OrderedWeakSet.rotation += 1
            return out
        ctx.extra['hist'].append(i)
        before = self._inbox_uids(ctx)
        live_rw = rec.rw_inbox_live()
        slot = ev['s'] if ev['s'] >= 0 else None
        si = ctx.extra['slots'][slot] if slot is not None \
            else ctx.extra['agent']
        if name == 'RELOGIN':
            ctx.do(si, b'LOGOUT')
            ni = ctx.connect()
            assert ctx.do(ni, b'LOGIN alice pw').cond == 'OK'
            ctx.extra['slots'][slot] = ni
            rec.sel[slot] = None
            rec.last_recent[slot] = None
            return out
        st = ctx.do(si, ev['line'])
        for h in ctx.harness_errors:
            raise RuntimeError(h)
        if st.tagged is None:
            out.append(Violation('no-tagged-response', name, repr(st.raw)))
            return out
        # selection bookkeeping (control part is C05's business)
        if name in ('SELECT-INBOX', 'EXAMINE-INBOX', 'SELECT-Other',
                    'EXAMINE-Other', 'SELECT-missing'):
            if st.cond == 'OK':
                rec.epoch += 1
                mbx = 'Other' if name.endswith('-Other') else 'INBOX'
                ro = name.startswith('EXAMINE')
                rec.sel[slot] = (mbx, ro, rec.epoch)
                rec.last_recent[slot] = None
                if mbx == 'INBOX' and not ro:
                    # first read-write selection after arrival gets every
                    # pending message
                    now_uids = self._inbox_uids(ctx)
                    pend = sorted(u for u, s in rec.status.items()
                                  if s == 'pending' and u in now_uids)
                    got = [r.num for r in st.untagged('RECENT')]
                    # messages that arrived while some read-write selection
                    # existed and that nobody has been shown \Recent yet may
                    # be given to this selection as well (at most once)
                    free = [u for u, s_ in rec.status.items()
                            if s_ == 'assignable' and u in now_uids
                            and not rec.seen_rw.get(u)]
                    if got and not (len(pend) <= got[-1]
                                    <= len(pend) + len(free)):
                        out.append(Violation(
                            'select-recent-count', name,
                            f'SELECT reported RECENT {got[-1]}, messages '
                            f'that arrived unselected and unclaimed: {pend}'
                            f' (arrived while selected elsewhere, not yet '
                            f'shown to anybody: {free})'))
                    for u in pend:
                        rec.status[u] = 'claimed'
                        rec.seen_rw.setdefault(u, set()).add(
                            (slot, rec.epoch))
                        ctx.extra.setdefault('must_show', {})[
                            (slot, rec.epoch)] = set(pend)
            else:
                rec.sel[slot] = None
                rec.last_recent[slot] = None
        elif name == 'CLOSE' and st.cond == 'OK':
            rec.sel[slot] = None
            rec.last_recent[slot] = None
        # arrivals
        after = self._inbox_uids(ctx)
        for uid in sorted(after - before):
            rec.status[uid] = 'assignable' if live_rw else 'pending'
            rec.seen_rw.setdefault(uid, set())
        self._sightings(ctx, slot, si, st.responses, out, name)
        for osi, (data, rs) in ctx.extra.get('unsolicited', {}).items():
            oslot = [k for k, v in ctx.extra['slots'].items() if v == osi]
            if oslot:
                self._sightings(ctx, oslot[0], osi, rs, out, name)
        for sh in ctx.shadows:
            sh.take_problems()
        return out

    def key(self, ctx):
        if self.kind != 'dict':
            return (tuple(ctx.extra['hist']),)
        return (dict_world_key(ctx.world), ctx.extra['rec'].key(),
                tuple(sorted(ctx.extra['slots'].items())),
                OrderedWeakSet.rotation)

    def outcome(self, ctx):
        return ctx.last.summary() if ctx.last else None

    def probe(self, ctx):
        out = []
        rec: Rec = ctx.extra['rec']
        last = ctx.steps[-1].verb if ctx.steps else '-'
        inbox_uids = self._inbox_uids(ctx)
        for slot, si in sorted(ctx.extra['slots'].items()):
            sel = rec.sel[slot]
            if sel is None or sel[0] != 'INBOX':
                continue
            st = ctx.do(si, b'NOOP')
            self._sightings(ctx, slot, si, st.responses, out, 'probe')
            st = ctx.do(si, b'FETCH 1:* (UID FLAGS)')
            self._sightings(ctx, slot, si, st.responses, out, 'probe')
            shown = {r.data['UID'] for r in st.untagged('FETCH')
                     if any(f.lower() == b'\\recent'
                            for f in r.data.get('FLAGS', []))}
            if not sel[1]:
                must = ctx.extra.get('must_show', {}).get((slot, sel[2]),
                                                          set())
                missing = {u for u in must if u in inbox_uids} - shown
                if missing:
                    out.append(Violation(
                        'claimed-not-shown', last,
                        f'slot {slot}: messages {sorted(missing)} arrived '
                        f'unselected, this was the first read-write SELECT, '
                        f'but they are not \\Recent here'))
                cnt = rec.last_recent.get(slot)
                if cnt is not None and cnt != len(shown):
                    out.append(Violation(
                        'recent-count-mismatch', last,
                        f'slot {slot}: last RECENT count {cnt}, FETCH shows '
                        f'{sorted(shown)}'))
                # (STATUS (RECENT) of the selected mailbox is not compared:
                # the property speaks of SELECT and untagged RECENT only)
        # never stored: a brand-new read-write session sees \Recent exactly on
        # the pending messages (and joins the at-most-one rule for the rest)
        p = ctx.connect()
        assert ctx.do(p, b'LOGIN alice pw').cond == 'OK'
        st = ctx.do(p, b'SELECT INBOX')
        st = ctx.do(p, b'FETCH 1:* (UID FLAGS)')
        shown = {r.data['UID'] for r in st.untagged('FETCH')
                 if any(f.lower() == b'\\recent'
                        for f in r.data.get('FLAGS', []))}
        pend = {u for u, s in rec.status.items()
                if s == 'pending' and u in inbox_uids}
        if pend - shown:
            out.append(Violation(
                'pending-lost', last,
                f'messages {sorted(pend - shown)} arrived while no read-write '
                f'selection existed and were never claimed, but a fresh '
                f'read-write SELECT does not show them \\Recent'))
        for u in sorted(shown - pend):
            seen = rec.seen_rw.get(u, set())
            if seen or rec.status.get(u) == 'claimed':
                out.append(Violation(
                    'recent-twice', last,
                    f'UID {u} is \\Recent for a fresh session although '
                    f'already shown to / claimed by {sorted(seen)} '
                    f'(status {rec.status.get(u)})'))
        for h in ctx.harness_errors:
            raise RuntimeError(h)
        return out

    def close(self, ctx):
        ctx.close()

    def show_last(self, ctx):
        ctx.show_last()


def run(*, tier, seed, jobs, progress, opts):
    t0 = time.perf_counter()
    if 'depth' in opts:
        plans = [dict(nsess=int(opts.get('nsess', 2)),
                      depth=int(opts['depth']),
                      kind=opts.get('kind', 'dict'))]
    elif tier == 'quick':
        started = [(0, 'SELECT-INBOX'), (-1, 'DELIVER'), (0, 'NOOP')]
        plans = [dict(nsess=2, depth=3), dict(nsess=3, depth=2),
                 dict(nsess=2, depth=2, kind='++'),
                 # from a state in which a session has the mailbox selected
                 # and has been shown a message somebody else delivered
                 dict(nsess=2, depth=2, kind='++', pre=started),
                 dict(nsess=2, depth=2, pre=started)]
    else:
        plans = [dict(nsess=2, depth=4),
                 dict(nsess=3, depth=3),
                 dict(nsess=2, depth=3, kind='++'),
                 dict(nsess=2, depth=2, kind='fs'),
                 dict(nsess=2, depth=3, kind='++', pre=[
                     (0, 'SELECT-INBOX'), (-1, 'DELIVER'), (0, 'NOOP')]),
                 dict(nsess=2, depth=3, pre=[
                     (0, 'SELECT-INBOX'), (-1, 'DELIVER'), (0, 'NOOP')])]
    violations = []
    cov = {'plans': [], 'states': 0, 'transitions': 0,
           'traces_validated_against_impl': 0, 'samples': []}
    from ..worlds import scratch_parent
    for plan in plans:
        depth = plan.pop('depth')
        m = Model(**plan)
        with scratch_parent():
            res = bfs(m, depth, jobs=jobs, seed=seed, progress=progress)
        if m.kind != 'dict':
            for v in res.violations:
                v['site'] = m.kind + ':' + v['site']
        if res.errors:
            print(res.errors[0])
            raise RuntimeError('harness error during exploration')
        c = res.coverage(m)
        cov['plans'].append({'sessions': m.nsess, 'depth': depth,
                             'backend': m.kind,
                             'start_state': [f's{a}:{b}' for a, b in m.pre],
                             **{
            k: c[k] for k in ('states', 'transitions', 'depth_completed',
                              'frontier_sizes', 'state_cap_hit')}})
        cov['states'] += c['states']
        cov['transitions'] += c['transitions']
        cov['traces_validated_against_impl'] += c['transitions']
        cov['samples'] += [[f"s{e['s']}:{e['name']}" for e in smp]
                           for smp in c['samples'][:3]]
        violations += res.violations
    # E7: a session working on a message still in new/ races with another
    # session's SELECT (which claims new/) on the maildir backend
    if 'depth' not in opts:
        import multiprocessing as mp
        from . import c17mt
        mtc = {'pairs': 0, 'executions': 0, 'distinct_outcomes': 0,
               'by_preemptions': {}}
        with scratch_parent(), \
                mp.get_context('fork').Pool(jobs or 16) as pool:
            for st in pool.imap_unordered(c17mt.task, c17mt.tasks(tier),
                                          chunksize=1):
                if 'error' in st:
                    raise RuntimeError(f'E7 harness error: {st}')
                mtc['pairs'] += 1
                mtc['executions'] += st['executions']
                mtc['distinct_outcomes'] += st['outcomes']
                for k, n in st['by_preemptions'].items():
                    mtc['by_preemptions'][str(k)] = \
                        mtc['by_preemptions'].get(str(k), 0) + n
                violations += st['violations']
        cov['maildir_threads'] = mtc
        cov['transitions'] += mtc['executions']
        cov['traces_validated_against_impl'] += mtc['executions']
    cov['alphabet'] = [n for n, _ in PER_SESSION] + [n for n, _ in GLOBAL]
    cov['exhaustive'] = True
    cov['rule'] = ('all histories up to the depth bound of select/examine/'
                   'close/relogin/deliver/copy/move/store events by N '
                   'sessions plus a non-selecting delivery agent and the '
                   'weak-set rotation choice; canonical-state dedup')
    return finish(PROP, tier=tier, seed=seed, level='model_checking',
                  coverage=cov, violations=violations, t0=t0, assumptions=[
                      'dict backend; <= 3 sessions; depth bound',
                      'which of several live read-write selections receives '
                      '\\Recent is left open (at most one is required)'])


def replay(rec):
    from ..worlds import scratch_parent
    r = rec['replay']
    if r.get('mt17'):
        from . import c17mt, mtmaildir as mt
        with scratch_parent():
            ex, info = c17mt.run_schedule(r['layout'], tuple(r['names']),
                                          r['prefix'])
            viols = c17mt.judge(r['layout'], tuple(r['names']), ex, info)
            mt.drop_templates()
        for v in viols:
            print('VIOLATION-REPLAYED', v['rule'], v['site'], v['msg'])
        return 1 if viols else 0
    m = Model(**r['params'])
    with scratch_parent():
        viols = run_history(m, r['history'])
    for v in viols:
        print('VIOLATION-REPLAYED', v['rule'], v['site'], v['msg'])
    return 1 if viols else 0
