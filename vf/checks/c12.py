"""C12 -- a read-only selection never changes the mailbox.

BFS over every program of message commands issued inside a read-only
selection (EXAMINE of a read-write mailbox; SELECT of a read-only mailbox),
with 0-1 read-write observers; oracle: persistent state of the selected
mailbox unchanged (glass-box) and an independent read-write probe session on
a discarded copy of every state sees the same dump, refusals are NO, CLOSE
succeeds and removes nothing."""
from __future__ import annotations

import time

from ..canon import dict_world_key
from ..driver import Ctx
from ..explore import bfs, run_history
from ..report import Violation, finish
from ..worlds import DictWorld
from .seqmodel import lit, msg

PROP = 'C12'


def build_cmds(target_other: bytes, skip_copy_into: bytes | None = None):
    C = []
    sets = [b'1', b'2', b'1:*']
    for uid in (b'', b'UID '):
        ss = [b'101', b'1:*'] if uid else sets
        for s in ss:
            for op in (b'FLAGS', b'+FLAGS', b'-FLAGS', b'+FLAGS.SILENT',
                       b'FLAGS.SILENT'):
                for fl in (b'(\\Deleted)', b'(\\Seen \\Flagged)', b'()',
                           b'($kw)'):
                    if op.startswith(b'-') and fl == b'()':
                        continue
                    C.append((b'%sSTORE %s %s %s' % (uid, s, op, fl), 'store'))
            for item in (b'BODY[]', b'BODY.PEEK[]', b'RFC822', b'RFC822.TEXT',
                         b'BODY[TEXT]', b'BODY[1]', b'BINARY[]',
                         b'BODY[HEADER]', b'(FLAGS UID)', b'BODY[]<0.10>'):
                C.append((b'%sFETCH %s %s' % (uid, s, item), 'fetch'))
            for dest in (target_other, b'INBOX', b'Trash', b'Missing'):
                # tolerance: COPY/APPEND *by name* into a read-write mailbox
                # that this session merely EXAMINEd is an ordinary delivery,
                # not an effect of the read-only selection (DESIGN C12)
                if dest != skip_copy_into:
                    C.append((b'%sCOPY %s %s' % (uid, s, dest), 'copy'))
                C.append((b'%sMOVE %s %s' % (uid, s, dest), 'move'))
    C += [(b'EXPUNGE', 'expunge'), (b'UID EXPUNGE 1:*', 'expunge'),
          (b'UID EXPUNGE 102', 'expunge'),
          (b'CLOSE', 'close'), (b'NOOP', 'read'), (b'CHECK', 'read'),
          (b'SEARCH ALL', 'read'), (b'SEARCH UNSEEN', 'read'),
          (b'UID SEARCH DELETED', 'read'), (b'SEARCH RECENT', 'read'),
          (b'APPEND Trash ' + lit(msg(5)), 'append-ro'),
          (b'APPEND Trash (\\Seen) ' + lit(msg(5)), 'append-ro'),
          (b'STATUS INBOX (MESSAGES RECENT UNSEEN)', 'read'),
          (b'IDLE', 'idle')]
    return C


def persistent(mbx):
    return tuple((uid, tuple(sorted(bytes(f) for f in m.permanent_flags)),
                  bool(m.recent))
                 for uid, m in sorted(mbx._messages.items())) + \
        (('max_uid', mbx._max_uid),)


class Model:
    name = 'c12'

    def __init__(self, variant='examine-inbox', observers=0,
                 via_rw=False) -> None:
        # via_rw: the connection enters the read-only selection straight
        # from a read-write one (SELECT Sent, no CLOSE in between)
        self.via_rw = via_rw
        self.params = {'variant': variant, 'observers': observers,
                       'via_rw': via_rw}
        self.box = 'INBOX' if variant == 'examine-inbox' else 'Trash'
        cmds = build_cmds(b'Sent', b'INBOX' if variant == 'examine-inbox'
                          else None)
        self._examine = variant == 'examine-inbox'
        self.variant = variant + ('+rw' if via_rw else '')
        self.observers = observers
        self._alpha = [{'name': c.decode('latin1')[:60], 'line': c,
                        'kind': k} for c, k in cmds]
        self._alpha.append({'name': 'RE-ENTER', 'line': None,
                            'kind': 'reenter'})
        self._alpha.append({'name': 'OBS-NOOP', 'line': b'NOOP',
                            'kind': 'obs'})
        self._alpha.append({'name': 'DELIVER', 'line': None,
                            'kind': 'deliver'})
        # the read-only session itself delivers, by name, into the mailbox
        # it has EXAMINEd: an ordinary delivery -- the message set grows, but
        # the selection must not consume the new message's \Recent
        self._alpha.append({'name': 'SELF-APPEND', 'line': None,
                            'kind': 'self-append'})
        self._d0 = None

    def alphabet(self):
        return self._alpha

    def _select_line(self):
        return b'EXAMINE INBOX' if self._examine else b'SELECT Trash'

    def new(self):
        w = DictWorld(demo_data=True, users={})
        ctx = Ctx(w)
        # set-up session: flag message 2 \Deleted, leave without CLOSE
        s0 = ctx.connect()
        assert ctx.do(s0, b'LOGIN demouser demopass').cond == 'OK'
        assert ctx.do(s0, b'SELECT INBOX').cond == 'OK'
        assert ctx.do(s0, b'STORE 2 +FLAGS (\\Deleted)').cond == 'OK'
        assert ctx.do(s0, b'SELECT Sent').cond == 'OK'
        ctx.do(s0, b'LOGOUT')
        # a message delivered while nobody has INBOX selected: stored \Recent
        ag = ctx.connect()
        assert ctx.do(ag, b'LOGIN demouser demopass').cond == 'OK'
        assert ctx.do(ag, b'APPEND INBOX ' + lit(msg(4))).cond == 'OK'
        ctx.extra['agent'] = ag
        obs = []
        for _ in range(self.observers):
            o = ctx.connect()
            assert ctx.do(o, b'LOGIN demouser demopass').cond == 'OK'
            assert ctx.do(o, b'SELECT INBOX').cond == 'OK'
            obs.append(o)
        ctx.extra['obs'] = obs
        r = ctx.connect()
        assert ctx.do(r, b'LOGIN demouser demopass').cond == 'OK'
        if self.via_rw:
            assert ctx.do(r, b'SELECT Sent').cond == 'OK'
        st = ctx.do(r, self._select_line())
        assert st.cond == 'OK' and st.tagged.code == b'READ-ONLY', st.raw
        ctx.extra['r'] = r
        ctx.extra['in'] = True
        ctx.extra['idle'] = False
        ctx.extra['delivered'] = 0
        ctx.extra['agent_done'] = False
        ctx.extra['self_done'] = False
        ctx.steps.clear()
        for sh in ctx.shadows:
            sh.take_problems()
        return ctx

    def _mbx(self, ctx, name=None):
        mset = ctx.world.mailbox_set('demouser')
        name = name or self.box
        return mset._inbox if name == 'INBOX' else mset._set[name]

    def enabled(self, ctx):
        out = []
        for i, ev in enumerate(self._alpha):
            k = ev['kind']
            if ctx.extra['idle']:
                if k == 'idle':
                    out.append(i)       # toggles: sends DONE
                elif k == 'obs' and ctx.extra['obs']:
                    out.append(i)
                continue
            if k == 'deliver':
                if ctx.extra['delivered'] < 2 and self.box == 'INBOX' \
                        and not ctx.extra['agent_done']:
                    out.append(i)
            elif k == 'self-append':
                if ctx.extra['delivered'] < 2 and self.box == 'INBOX' \
                        and self._examine \
                        and not ctx.extra['self_done']:
                    out.append(i)
            elif k == 'reenter':
                if not ctx.extra['in']:
                    out.append(i)
            elif k == 'obs':
                if ctx.extra['obs']:
                    out.append(i)
            elif k in ('append-ro',) or ctx.extra['in']:
                out.append(i)
        return out

    def apply(self, ctx, i):
        ev = self._alpha[i]
        out = []
        r = ctx.extra['r']
        k = ev['kind']
        site = ev['line'].split(b' {')[0].decode('latin1') if ev['line'] \
            else ev['name']
        if k == 'obs':
            ctx.do(ctx.extra['obs'][0], b'NOOP')
            return out
        if k == 'deliver':
            # external delivery by a session that has nothing selected
            st = ctx.do(ctx.extra['agent'], b'APPEND INBOX ' + lit(msg(6)))
            assert st.cond == 'OK', st.raw
            ctx.extra['delivered'] += 1
            ctx.extra['agent_done'] = True
            return out
        if k == 'self-append':
            before = persistent(self._mbx(ctx))
            st = ctx.do(r, b'APPEND INBOX ' + lit(msg(6)))
            assert st.cond == 'OK', st.raw
            ctx.extra['delivered'] += 1
            ctx.extra['self_done'] = True
            after = persistent(self._mbx(ctx))
            if after[:len(before) - 1] != before[:-1] or \
                    len(after) != len(before) + 1:
                out.append(Violation(
                    'persistent-changed', f'{self.variant}:SELF-APPEND',
                    f'APPEND INBOX from the read-only selection changed more '
                    f'than adding one message: {before} -> {after}'))
            for sh in ctx.shadows:
                sh.take_problems()
            return out
        before = persistent(self._mbx(ctx))
        trash_before = persistent(self._mbx(ctx, 'Trash'))
        if k == 'reenter':
            if self.via_rw:
                ctx.do(r, b'SELECT Sent')
            st = ctx.do(r, self._select_line())
            ctx.extra['in'] = st.cond == 'OK'
        elif k == 'idle':
            if ctx.extra['idle']:
                st = ctx.more(r, b'DONE\r\n')
                ctx.extra['idle'] = False
            else:
                st = ctx.do(r, b'IDLE')
                if st.tagged is None and any(r.kind == 'cont'
                                             for r in st.responses):
                    ctx.extra['idle'] = True
        else:
            st = ctx.do(r, ev['line'])
        for h in ctx.harness_errors:
            raise RuntimeError(h)
        after = persistent(self._mbx(ctx))
        if after != before:
            out.append(Violation(
                'persistent-changed', f'{self.variant}:{site}',
                f'{site!r} inside a read-only selection of {self.box} '
                f'changed it: {before} -> {after}'))
        if persistent(self._mbx(ctx, 'Trash')) != trash_before:
            out.append(Violation(
                'readonly-mailbox-changed', f'{self.variant}:{site}',
                f'{site!r} changed the read-only mailbox Trash'))
        cond = st.cond
        if k in ('store', 'expunge') and cond != 'NO' and ctx.extra['in']:
            out.append(Violation(
                'not-refused', f'{self.variant}:{site}',
                f'{site!r} in a read-only selection answered {cond}'))
        if k == 'append-ro' and cond != 'NO':
            out.append(Violation('not-refused', f'{self.variant}:{site}',
                       f'APPEND into read-only Trash answered {cond}'))
        if k in ('copy', 'move') and ev['line'].endswith(b' Trash') \
                and cond != 'NO':
            out.append(Violation('not-refused', f'{self.variant}:{site}',
                       f'{site!r} into read-only Trash answered {cond}'))
        if k == 'close':
            s = ctx.session(r)
            if cond != 'OK' or s.state._selected is not None:
                out.append(Violation(
                    'close', f'{self.variant}:CLOSE',
                    f'CLOSE of a read-only selection: {st.raw!r}, selected='
                    f'{s.state._selected is not None}'))
            ctx.extra['in'] = s.state._selected is not None
        for sh in ctx.shadows:
            sh.take_problems()
        return out

    def key(self, ctx):
        return (dict_world_key(ctx.world), ctx.extra['in'],
                ctx.extra['idle'], ctx.extra['delivered'],
                ctx.extra['agent_done'], ctx.extra['self_done'])

    def outcome(self, ctx):
        return ctx.last.summary() if ctx.last else None

    def _dump(self, ctx):
        p = ctx.connect()
        assert ctx.do(p, b'LOGIN demouser demopass').cond == 'OK'
        st = ctx.do(p, b'SELECT ' + self.box.encode())
        if st.cond != 'OK':
            return ('select-failed', st.raw)
        hdr = tuple((r.name, r.num) for r in st.responses
                    if r.kind == 'untagged' and r.name in ('EXISTS', 'RECENT'))
        st = ctx.do(p, b'FETCH 1:* (UID FLAGS RFC822.SIZE)')
        rows = tuple((r.data.get('UID'),
                      tuple(sorted(f.lower() for f in r.data.get('FLAGS', []))),
                      r.data.get('RFC822.SIZE'))
                     for r in st.untagged('FETCH'))
        return (hdr, rows)

    def d0(self):
        if self._d0 is None:
            ctx = self.new()
            try:
                self._d0 = self._dump(ctx)
            finally:
                ctx.close()
        return self._d0

    def probe(self, ctx):
        out = []
        if ctx.extra['idle']:
            ctx.more(ctx.extra['r'], b'DONE\r\n')
            ctx.extra['idle'] = False
        last = ctx.steps[-1] if ctx.steps else None
        site = (last.sent[0].split(b' {')[0].decode('latin1')
                if last else '-')
        d = self._dump(ctx)
        exp = self.d0()
        n = ctx.extra['delivered']
        if n:
            # delivered while only read-only selections (and possibly a
            # read-write observer, who then owns \Recent) exist
            hdr, rows = exp
            ex = dict(hdr)
            rec = 0 if ctx.extra['obs'] else n
            hdr = (('EXISTS', ex['EXISTS'] + n), ('RECENT', ex['RECENT'] + rec))
            last_uid = rows[-1][0]
            rows = rows + tuple(
                (last_uid + j, (b'\\recent',) if rec else (), len(msg(6)))
                for j in range(1, n + 1))
            exp = (hdr, rows)
        if d != exp:
            out.append(Violation(
                'probe-dump-changed', f'{self.variant}:{site}',
                f'a fresh read-write session sees {d}, expected {exp} '
                f'(dump before the read-only program + {n} deliveries)'))
        return out

    def close(self, ctx):
        ctx.close()

    def show_last(self, ctx):
        ctx.show_last()


def run(*, tier, seed, jobs, progress, opts):
    t0 = time.perf_counter()
    depth = int(opts.get('depth', 2 if tier == 'quick' else 3))
    plans = [('examine-inbox', 0), ('examine-inbox', 1), ('select-trash', 0),
             ('examine-inbox', 0, True), ('select-trash', 0, True)]
    if tier != 'quick':
        plans.append(('select-trash', 1))
        plans.append(('examine-inbox', 1, True))
    violations = []
    cov = {'plans': [], 'states': 0, 'transitions': 0,
           'traces_validated_against_impl': 0, 'samples': []}
    for variant, obs, *rest in plans:
        m = Model(variant, obs, *rest)
        m.d0()
        res = bfs(m, depth, jobs=jobs, seed=seed, progress=progress)
        if res.errors:
            print(res.errors[0])
            raise RuntimeError('harness error during exploration')
        c = res.coverage(m)
        cov['plans'].append({'variant': m.variant, 'observers': obs,
                             'depth': depth, **{k: c[k] for k in (
                                 'states', 'transitions', 'depth_completed',
                                 'frontier_sizes', 'state_cap_hit',
                                 'state_space_closed_before_bound')}})
        cov['states'] += c['states']
        cov['transitions'] += c['transitions']
        cov['traces_validated_against_impl'] += c['transitions']
        cov['samples'] += [[e['name'] for e in smp] for smp in c['samples'][:2]]
        cov['alphabet_size'] = len(m.alphabet())
        violations += res.violations
    # the maildir backend: the store is files, the oracle a byte comparison
    # of the user's whole file tree
    import multiprocessing as mp
    from . import c12md
    from ..worlds import scratch_parent
    progs = c12md.programs(tier)
    layouts = ['++'] if tier == 'quick' else ['++', 'fs']
    chunk = max(8, len(progs) // 16)
    mtasks = [(lay, progs[i:i + chunk]) for lay in layouts
              for i in range(0, len(progs), chunk)]
    md = 0
    with scratch_parent(), mp.get_context('fork').Pool(jobs or 16) as pool:
        for vs, n in pool.imap_unordered(c12md.task, mtasks):
            violations += vs
            md += n
    cov['maildir'] = {'layouts': layouts, 'programs': md,
                      'rule': 'every command of the alphabet (and every '
                              'ordered pair of 12 core commands) inside '
                              'EXAMINE INBOX on real files; the complete '
                              'file tree of the user (names = flags and '
                              'new/cur placement, contents, UID lists) must '
                              'be byte-identical afterwards, except additions '
                              'in the mailbox a COPY names'}
    cov['transitions'] += md
    cov['traces_validated_against_impl'] += md
    cov['exhaustive'] = True
    cov['rule'] = ('every program up to the depth bound over the full '
                   'message-command alphabet inside a read-only selection; '
                   'canonical-state dedup (most commands leave the state '
                   'unchanged, so the reachable set is small and every '
                   'command is applied in every reachable state)')
    return finish(PROP, tier=tier, seed=seed, level='model_checking',
                  coverage=cov, violations=violations, t0=t0, assumptions=[
                      'dict backend with demo data; <= 1 observer; maildir: '
                      'programs of <= 2 commands, file-tree oracle',
                      'observers only NOOP'])


def replay(rec):
    r = rec['replay']
    if r.get('md'):
        from . import c12md
        from ..worlds import scratch_parent
        with scratch_parent():
            vs = c12md.run_program(r['layout'], [
                (ln.encode('latin1'), k) for ln, k in r['lines']])
        for v in vs:
            print('VIOLATION-REPLAYED', v['rule'], v['site'], v['msg'])
        return 1 if vs else 0
    m = Model(**r['params'])
    viols = run_history(m, r['history'])
    for v in viols:
        print('VIOLATION-REPLAYED', v['rule'], v['site'], v['msg'])
    return 1 if viols else 0
