"""C11 on maildir under real concurrency (E7): two sessions run one namespace
command each; every schedule of their filesystem calls up to a preemption
bound.  Oracle (no hand-written expectation): the pair of tagged conditions
and the namespace afterwards (LIST, LSUB, STATUS identities) must equal what
one of the two *serial* orders produces - a single command is atomic for its
issuer (linearizability of two operations)."""
from __future__ import annotations

from ..report import Violation
from . import mtmaildir as mt

NONE = lambda i: []       # noqa: E731

# template store has mailboxes INBOX and a; nothing subscribed
PROGRAMS = {
    'UNSUB-a': (lambda i: [b'SUBSCRIBE a'] if i == 0 else [],
                lambda i: [b'UNSUBSCRIBE a']),
    'SUB-a': (NONE, lambda i: [b'SUBSCRIBE a']),
    'SUB-own': (NONE, lambda i: [b'SUBSCRIBE %s' % (b'INBOX', b'a')[i]]),
    'CREATE-x': (NONE, lambda i: [b'CREATE x']),
    'CREATE-own': (NONE, lambda i: [b'CREATE %s' % (b'x', b'y')[i]]),
    'CREATE-x/y': (NONE, lambda i: [b'CREATE x/y']),
    'DELETE-a': (NONE, lambda i: [b'DELETE a']),
    'RENAME-a-own': (NONE, lambda i: [b'RENAME a %s' % (b'b', b'c')[i]]),
    'RENAME-a-b': (NONE, lambda i: [b'RENAME a b']),
    'SELECT-a': (NONE, lambda i: [b'SELECT a']),
    'STATUS-a': (NONE, lambda i: [b'STATUS a (MESSAGES UIDNEXT)']),
    'APPEND-a': (NONE, lambda i: [b'APPEND a ' + mt.lit(mt.body('n%d' % i))]),
    'LIST': (NONE, lambda i: [b'LIST "" *']),
}
PAIRS = [('UNSUB-a', 'UNSUB-a'), ('SUB-a', 'UNSUB-a'), ('SUB-own', 'SUB-own'),
         ('SUB-a', 'SUB-a'), ('CREATE-x', 'CREATE-x'),
         ('CREATE-own', 'CREATE-own'), ('CREATE-x', 'CREATE-x/y'),
         ('DELETE-a', 'DELETE-a'), ('DELETE-a', 'SELECT-a'),
         ('DELETE-a', 'APPEND-a'), ('RENAME-a-own', 'RENAME-a-own'),
         ('RENAME-a-b', 'SELECT-a'), ('RENAME-a-b', 'STATUS-a'),
         ('RENAME-a-b', 'APPEND-a'), ('RENAME-a-b', 'DELETE-a'),
         ('CREATE-x', 'LIST'), ('DELETE-a', 'LIST'), ('RENAME-a-b', 'LIST')]


def observe(cl, n):
    """Namespace as a fresh server instance reports it."""
    tg, rs = cl.cmd(n, b'LIST "" *', need_ok=False)
    names = sorted(bytes(r.data[2]) for r in rs
                   if r.kind == 'untagged' and r.name == 'LIST'
                   and not any(a.lower() == b'\\noselect' for a in r.data[0]))
    tg, rs = cl.cmd(n, b'LSUB "" *', need_ok=False)
    subs = sorted(bytes(r.data[2]) for r in rs
                  if r.kind == 'untagged' and r.name == 'LSUB'
                  and not any(a.lower() == b'\\noselect' for a in r.data[0]))
    counts = []
    for nm in names:
        tg, rs = cl.cmd(n, b'STATUS ' + mt.lit(nm) + b' (MESSAGES)',
                        need_ok=False)
        c = [r.data[1].get('MESSAGES') for r in rs
             if r.kind == 'untagged' and r.name == 'STATUS']
        counts.append((nm, c[0] if c else (tg.name if tg else None)))
    return names, subs, counts


def execute(layout, names, prefix=None, serial=None):
    """One execution: scheduled (prefix) or serial in the given order."""
    from ..procs import Sched
    n = len(names)
    cl = mt.Cluster(layout, n)
    try:
        for i, nm in enumerate(names):
            for line in PROGRAMS[nm][0](i):
                cl.cmd(i, line)
        if serial is not None:
            conds = [None] * n
            for i in serial:
                c = []
                for line in PROGRAMS[names[i]][1](i):
                    tg, _ = cl.cmd(i, line, need_ok=False)
                    c.append(tg.name if tg is not None else None)
                conds[i] = tuple(c)
            return None, (tuple(conds), observe(cl, n), [])
        sched = Sched(cl.jail, private_dirs=[cl.worlds[0].tmp_dir],
                      shared_root=cl.worlds[0].root)
        procs = [sched.add(cl.worlds[i], cl.sessions[i],
                           PROGRAMS[nm][1](i)) for i, nm in enumerate(names)]
        ex = sched.run(prefix)
        conds = tuple(tuple(r.name for _, r, _ in p.results) for p in procs)
        return ex, (conds, observe(cl, n), ex.stuck)
    finally:
        cl.close()


def task(args):
    layout, names, bound = args[:3]
    sub = args[3] if len(args) > 3 else None
    from ..procs import explore, ScheduleError
    vios = []
    outcomes = set()
    site = f'{layout}:threads:{names[0]}||{names[1]}'
    try:
        serial = []
        for order in ((0, 1), (1, 0)):
            _, o = execute(layout, names, serial=order)
            serial.append((o[0], o[1]))

        def run(prefix):
            ex, (conds, obs, stuck) = execute(layout, names, prefix=prefix)
            outcomes.add(repr((conds, obs)))
            rep = {'mt11': True, 'layout': layout, 'names': list(names),
                   'prefix': list(prefix)}
            if stuck:
                vios.append(Violation(
                    'no-completion', site,
                    f'process(es) {stuck} never answered (answers {conds}); '
                    f'schedule: {mt.explain(ex)}', replay=rep))
            elif (conds, obs) not in serial:
                vios.append(Violation(
                    'not-serializable', site,
                    f'answers {conds} and namespace {obs} match neither '
                    f'serial order: A;B gives {serial[0]}, B;A gives '
                    f'{serial[1]}; schedule: {mt.explain(ex)}', replay=rep))
            return ex, None
        st = explore(run, bound, prefixes=sub)
    except ScheduleError as exc:
        return {'error': repr(exc), 'names': names}
    finally:
        mt.drop_templates()
    st.update(violations=vios, outcomes=len(outcomes), names=names)
    return st


def tasks(tier):
    T = [('++', pr, 1) for pr in PAIRS]
    if tier != 'quick':
        T += [('fs', pr, 1) for pr in PAIRS]
        for pr in PAIRS[:6]:
            T += [('++', pr, 2, ch) for ch in mt.split_root(
                lambda pr=pr: execute('++', pr, prefix=[])[0], 2)]
    return T
