"""C20, the threading read-write lock under real threads: every schedule.

``pymap.concurrent._threading_Lock`` is a module-level name: it is rebound to a
scheduler-aware lock before ``_ThreadingReadWriteLock()`` is constructed, so no
thread can block outside the scheduler.  Each program thread is a real thread
with its own event loop (as in ``_ThreadingSubsystem._run_in_thread``); a baton
lets exactly one run.  Scheduling points: before every acquire and release of
an inner mutex, and inside every critical section.  A thread blocked on a held
mutex is disabled until it is released.  All schedules are enumerated (the
two-thread programs are enumerated completely, larger ones with a preemption
bound)."""
from __future__ import annotations

import asyncio
import threading

from ..procs import Execution, Point, ScheduleError
from ..report import Violation

_tl = threading.local()


class Boom(Exception):
    pass


class _T:
    def __init__(self, tid) -> None:
        self.tid = tid
        self.sem = threading.Semaphore(0)
        self.status = 'ready'      # ready | blocked | done
        self.at = ('start',)
        self.blocked_on = None
        self.thread = None
        self.error = None


class TSched:
    def __init__(self) -> None:
        self.main = threading.Semaphore(0)
        self.threads: list[_T] = []
        self.active = True

    # -- called from program threads ---------------------------------------
    def point(self, desc) -> None:
        t = getattr(_tl, 't', None)
        if t is None or not self.active:
            return
        t.status = 'ready'
        t.at = desc
        self.main.release()
        t.sem.acquire()

    def block(self, lock) -> None:
        t = _tl.t
        t.status = 'blocked'
        t.blocked_on = lock
        self.main.release()
        t.sem.acquire()

    def released(self, lock) -> None:
        for t in self.threads:
            if t.status == 'blocked' and t.blocked_on is lock:
                t.status = 'ready'
                t.blocked_on = None


class SLock:
    """Stands in for threading.Lock inside pymap.concurrent."""
    sched: TSched = None       # set per execution
    n = 0

    def __init__(self) -> None:
        SLock.n += 1
        self.name = 'm%d' % SLock.n
        self._held = False

    def acquire(self, blocking=True, timeout=-1) -> bool:
        s = SLock.sched
        s.point(('acquire', self.name))
        while self._held:
            if not blocking:
                return False
            if getattr(_tl, 't', None) is None or not s.active:
                raise RuntimeError('lock held outside the scheduler')
            s.block(self)
        self._held = True
        return True

    def release(self) -> None:
        s = SLock.sched
        s.point(('release', self.name))
        if not self._held:
            raise RuntimeError('release unlocked lock')
        self._held = False
        s.released(self)

    def locked(self) -> bool:
        return self._held

    def __enter__(self):
        self.acquire()
        return self

    def __exit__(self, *a):
        self.release()


def run_schedule(program, prefix, raises=()):
    """program: tuple of per-thread strings over {R, W}."""
    import pymap.concurrent as pc
    sched = TSched()
    SLock.sched = sched
    SLock.n = 0
    saved = pc._threading_Lock
    pc._threading_Lock = SLock
    try:
        lock = pc._ThreadingReadWriteLock()
    finally:
        pc._threading_Lock = saved
    inside: dict = {}
    info = {'overlap': [], 'done': [], 'errors': [], 'deadlock': None}

    async def body(tid, kinds):
        for k, c in enumerate(kinds):
            cm = lock.write_lock() if c == 'W' else lock.read_lock()
            try:
                async with cm:
                    others = [x for j, x in inside.items() if j != tid]
                    if (c == 'W' and others) or 'W' in others:
                        info['overlap'].append((tid, c, dict(inside)))
                    inside[tid] = c
                    try:
                        sched.point(('in', c))
                        others = [x for j, x in inside.items() if j != tid]
                        if (c == 'W' and others) or 'W' in others:
                            info['overlap'].append((tid, c, dict(inside)))
                        if (tid, k) in raises:
                            raise Boom()
                    finally:
                        inside.pop(tid, None)
            except Boom:
                pass
        info['done'].append(tid)

    def thread_main(t, kinds):
        _tl.t = t
        t.sem.acquire()
        try:
            loop = asyncio.new_event_loop()
            try:
                loop.run_until_complete(body(t.tid, kinds))
            finally:
                loop.close()
        except BaseException as exc:       # noqa: BLE001
            t.error = exc
        t.status = 'done'
        sched.main.release()

    for tid, kinds in enumerate(program):
        t = _T(tid)
        sched.threads.append(t)
        t.thread = threading.Thread(target=thread_main, args=(t, kinds),
                                    daemon=True)
        t.thread.start()
    ex = Execution()
    prefix = list(prefix)
    cur = None
    try:
        while True:
            enabled = [t for t in sched.threads if t.status == 'ready']
            if not enabled:
                blocked = [t.tid for t in sched.threads
                           if t.status == 'blocked']
                if blocked:
                    info['deadlock'] = blocked
                break
            enabled.sort(key=lambda t: (t is not cur, t.tid))
            idx = 0
            if len(enabled) > 1:
                k = len(ex.points)
                if k < len(prefix):
                    idx = prefix[k]
                    if not 0 <= idx < len(enabled):
                        raise ScheduleError(f'replay diverged at point {k}')
                ex.points.append(Point(len(enabled), enabled[0] is cur,
                                       [(t.tid, t.at) for t in enabled]))
                ex.choices.append(idx)
            t = enabled[idx]
            cur = t
            ex.trace.append((t.tid,) + tuple(t.at))
            ex.resumes += 1
            t.status = 'running'
            t.sem.release()
            sched.main.acquire()
            if ex.resumes > 5000:
                ex.horizon_hit = True
                break
        if len(ex.points) < len(prefix):
            raise ScheduleError('replay diverged: unused choices')
    finally:
        sched.active = False
        # threads still parked (deadlock / horizon) are abandoned: daemon
        # threads blocked on their semaphores; they hold no real resources
    for t in sched.threads:
        if t.error is not None:
            info['errors'].append((t.tid, repr(t.error)))
    return ex, info


def explain(ex):
    out = []
    for ent in ex.trace:
        tid, what = ent[0], ':'.join(map(str, ent[1:]))
        if out and out[-1][0] == tid:
            out[-1][1].append(what)
        else:
            out.append((tid, [what]))
    return ' '.join(f'T{tid}[' + ' '.join(ws) + ']' for tid, ws in out)


def judge(program, raises, ex, info):
    site = 'threading-rw:' + '/'.join(program) + ('+raise' if raises else '')
    out = []
    sched = explain(ex)

    def v(rule, msg):
        out.append(Violation(rule, site, f'{msg}; schedule: {sched}'))
    if info['overlap']:
        tid, c, ins = info['overlap'][0]
        v('overlap', f'thread {tid} is inside its {c} section while '
          f'{ins} are inside theirs')
    if info['deadlock']:
        v('deadlock', f'threads {info["deadlock"]} are blocked for good '
          f'although every holder released')
    if ex.horizon_hit:
        v('livelock', 'no termination within 5000 scheduling steps')
    for tid, e in info['errors']:
        v('exception', f'thread {tid}: {e}')
    if not info['deadlock'] and not ex.horizon_hit and \
            len(info['done']) + len(info['errors']) != len(program):
        v('not-finished', f'finished {info["done"]}')
    return out


def explore_bounded(program, raises=(), bound=None):
    """Every schedule with at most ``bound`` preemptions (None: every
    schedule).  A preemption is a switch away from a thread that could have
    continued; switches when the running thread blocks or ends are free."""
    from ..procs import explore
    vios = []
    outcomes = set()

    def run(prefix):
        ex, info = run_schedule(program, prefix, raises)
        for x in judge(program, raises, ex, info):
            x['replay'] = {'thr': True, 'program': list(program),
                           'raises': [list(r) for r in raises],
                           'prefix': list(prefix)}
            vios.append(x)
        outcomes.add((tuple(info['done']), bool(info['overlap']),
                      bool(info['deadlock'])))
        return ex, info
    st = explore(run, 10 ** 6 if bound is None else bound)
    st.update(violations=vios, outcomes=len(outcomes), program=program,
              raises=raises, bound=bound)
    return st


def task(args):
    program, raises, bound = args
    try:
        return explore_bounded(program, raises, bound)
    except ScheduleError as exc:
        return {'error': repr(exc), 'program': program}


def tasks(tier):
    T = []
    progs = [('W', 'R'), ('W', 'W'), ('R', 'R'), ('W', 'R', 'R'),
             ('R', 'W', 'R'), ('W', 'W', 'R'), ('RW', 'R'), ('WR', 'W'),
             ('RR', 'W')]
    if tier != 'quick':
        progs += [('W', 'R', 'R', 'R'), ('RW', 'WR'), ('RW', 'R', 'R'),
                  ('W', 'W', 'W')]
    for p in progs:
        # two threads: every schedule; more: preemption-bounded
        if len(p) == 2 and sum(map(len, p)) <= 3:
            b = None
        elif tier == 'quick' or len(p) >= 4 or sum(map(len, p)) >= 4:
            b = 2
        else:
            b = 3
        T.append((p, (), b))
        T.append((p, ((0, 0),), b))
    return T
