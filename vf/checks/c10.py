"""C10 -- message commands behave as the IMAP reference model says.

Two-level explicit-state search: a small driver alphabet explored by BFS gives
the reachable states S; then every command of a large probe alphabet is applied
once in every state of S; results and the mailbox dump afterwards are compared
with vf/refmodel/mailbox.py."""
from __future__ import annotations

import multiprocessing as mp
import os
import time
from datetime import datetime, timedelta, timezone

from ..canon import dict_world_key
from ..driver import Ctx
from ..explore import bfs, replay as replay_hist, run_history, _digest
from ..refmodel import mailbox as rm
from ..refmodel import seqset
from ..report import Violation, finish
from ..worlds import DictWorld, MaildirWorld, BASE_TIME, scratch_parent

PROP = 'C10'

MONTHS = ['Jan', 'Feb', 'Mar', 'Apr', 'May', 'Jun', 'Jul', 'Aug', 'Sep',
          'Oct', 'Nov', 'Dec']


def mk(i: int) -> bytes:
    return (b'From: u%d@example.com\r\nSubject: m%d\r\n\r\n' % (i, i)
            + b'body-%d ' % i + b'x' * (3 * i) + b'\r\n')


def lit(data: bytes) -> bytes:
    return b'{%d+}\r\n%s' % (len(data), data)


def parse_date(s: bytes) -> datetime:
    t = s.decode().strip()
    day, mon, rest = t.split('-', 2)
    year, clock, zone = rest.split(' ')
    h, m, sec = clock.split(':')
    sign = -1 if zone[0] == '-' else 1
    off = timedelta(hours=int(zone[1:3]), minutes=int(zone[3:5])) * sign
    return datetime(int(year), MONTHS.index(mon) + 1, int(day), int(h),
                    int(m), int(sec), tzinfo=timezone(off))


D1 = b'"05-Feb-2020 10:11:12 +0000"'
NOW = datetime.fromtimestamp(BASE_TIME, timezone.utc)


def hdr_split(body: bytes):
    k = body.find(b'\r\n\r\n')
    j = body.find(b'\n\n')
    if k >= 0 and (j < 0 or k <= j):
        return body[:k + 4], body[k + 4:]
    if j >= 0:
        return body[:j + 2], body[j + 2:]
    return body, b''


# ---------------------------------------------------------------------------
# command descriptors -> wire

def render(d) -> bytes:
    op = d['op']
    u = b'UID ' if d.get('uid') else b''
    if op == 'store':
        return b'%sSTORE %s %sFLAGS%s (%s)' % (
            u, d['set'], d['mode'], b'.SILENT' if d.get('silent') else b'',
            b' '.join(d['flags']))
    if op == 'fetch':
        return b'%sFETCH %s %s' % (u, d['set'], d['item'])
    if op in ('copy', 'move'):
        return b'%s%s %s %s' % (u, op.upper().encode(), d['set'], d['dest'])
    if op == 'expunge':
        return b'EXPUNGE'
    if op == 'uidexpunge':
        return b'UID EXPUNGE ' + d['set']
    if op == 'close':
        return b'CLOSE'
    if op == 'noop':
        return b'NOOP'
    if op == 'append':
        parts = [b'APPEND', d['dest']]
        for m in d['msgs']:
            if m.get('flags') is not None:
                parts.append(b'(' + b' '.join(m['flags']) + b')')
            if m.get('date'):
                parts.append(m['date'])
            parts.append(lit(m['body']))
        return b' '.join(parts)
    if op == 'select':
        return b'SELECT ' + d['dest']
    raise AssertionError(d)


def name_of(d) -> str:
    s = render(d)
    k = s.find(b'{')
    return (s if k < 0 else s[:k] + b'<literal...>').decode('latin1')


FLAGSETS = [[b'\\Deleted'], [b'\\Seen', b'\\Flagged'], [b'kw'],
            [b'\\Recent'], []]
SETS = [b'1', b'2:1', b'*', b'1:*', b'9', b'1,1', b'2:4', b'*:1', b'3:*']
def usets(base=101):
    u = lambda k: b'%d' % (base + k)     # noqa: E731
    return [u(0), u(2) + b':' + u(0), b'*', b'1:*', b'999',
            u(1) + b',' + u(1), u(1) + b':' + u(3), b'*:' + u(0),
            u(3) + b':*', u(3) + b',' + u(0)]


USETS = usets()
ITEMS = [b'FLAGS', b'BODY[]', b'BODY.PEEK[]', b'BODY[TEXT]', b'RFC822',
         b'RFC822.HEADER', b'BINARY[]', b'(UID INTERNALDATE RFC822.SIZE)',
         b'BODY[HEADER]', b'RFC822.TEXT', b'BODY[]<2.7>', b'BODY[1]',
         b'BINARY.PEEK[]', b'BODY.PEEK[TEXT]<0.3>']


def probe_alphabet(reduced=False, base=101):
    P = []
    USETS = usets(base)
    for uid in (False, True):
        allsets = USETS if uid else SETS
        sets = allsets
        if reduced:
            sets = sets[:4]
            # copy/move keep every set shape (order / duplicates matter for
            # the COPYUID pairing)
            for s in allsets[4:]:
                for op in ('copy', 'move'):
                    P.append(dict(op=op, uid=uid, set=s, dest=b'Other'))
        for s in sets:
            for mode in (b'', b'+', b'-'):
                for silent in (False, True):
                    for fl in FLAGSETS:
                        P.append(dict(op='store', uid=uid, set=s, mode=mode,
                                      silent=silent, flags=fl))
            for it in ITEMS:
                P.append(dict(op='fetch', uid=uid, set=s, item=it))
            for op in ('copy', 'move'):
                for dest in (b'Other', b'INBOX', b'Missing'):
                    P.append(dict(op=op, uid=uid, set=s, dest=dest))
    P.append(dict(op='expunge'))
    for s in USETS:
        P.append(dict(op='uidexpunge', set=s))
    P.append(dict(op='close'))
    P.append(dict(op='noop'))
    P.append(dict(op='append', dest=b'INBOX', msgs=[dict(body=mk(7))]))
    P.append(dict(op='append', dest=b'INBOX',
                  msgs=[dict(body=mk(7), flags=[b'\\Seen', b'\\Deleted'],
                             date=D1)]))
    P.append(dict(op='append', dest=b'Other',
                  msgs=[dict(body=mk(7), flags=[b'kw', b'\\Recent'])]))
    P.append(dict(op='append', dest=b'Missing', msgs=[dict(body=mk(7))]))
    P.append(dict(op='append', dest=b'INBOX',
                  msgs=[dict(body=mk(7), flags=[]), dict(body=mk(8), date=D1)]))
    P.append(dict(op='append', dest=b'INBOX', msgs=[dict(body=b'')]))
    return P


def driver_alphabet(base=101):
    A, B = 0, 1
    return [
        dict(s=A, cmds=[dict(op='append', dest=b'INBOX',
                             msgs=[dict(body=mk(4), flags=[b'\\Flagged'],
                                        date=D1)])]),
        dict(s=A, cmds=[dict(op='append', dest=b'Other',
                             msgs=[dict(body=mk(5)), dict(body=mk(6),
                                                          flags=[b'\\Seen'])])]),
        dict(s=A, cmds=[dict(op='store', set=b'1', mode=b'+',
                             flags=[b'\\Deleted'])]),
        dict(s=A, cmds=[dict(op='store', set=b'2:3', mode=b'',
                             flags=[b'\\Seen'])]),
        dict(s=A, cmds=[dict(op='expunge')]),
        dict(s=A, cmds=[dict(op='uidexpunge', set=b'%d' % (base + 1))]),
        dict(s=A, cmds=[dict(op='copy', set=b'1', dest=b'Other')]),
        dict(s=A, cmds=[dict(op='move', set=b'*', dest=b'Other')]),
        dict(s=A, cmds=[dict(op='fetch', set=b'1', item=b'BODY[]')]),
        dict(s=A, cmds=[dict(op='close'), dict(op='select', dest=b'INBOX')]),
        dict(s=B, cmds=[dict(op='store', set=b'1', mode=b'+',
                             flags=[b'\\Deleted']), dict(op='expunge')]),
        dict(s=B, cmds=[dict(op='append', dest=b'INBOX',
                             msgs=[dict(body=mk(9), flags=[b'\\Deleted'])])]),
        dict(s=A, cmds=[dict(op='noop')]),
        dict(s=B, cmds=[dict(op='store', set=b'2', mode=b'+',
                             flags=[b'\\Answered'])]),
        # another session clears a flag the acting session has cached
        dict(s=B, cmds=[dict(op='store', set=b'2', mode=b'-',
                             flags=[b'\\Seen'])]),
    ]


# ---------------------------------------------------------------------------

import weakref
_CB = weakref.WeakKeyDictionary()     # weak: must not keep contents alive


def _content_bytes(c):
    if c is None:
        return b''
    v = _CB.get(c)
    if v is None:
        v = _CB[c] = bytes(c)
    return v


def glass_dump(world, user='alice'):
    """{box: [(uid, flags, date, body)]} read from the dict backend."""
    mset = world.mailbox_set(user)
    out = {}
    for name, mbx in [('INBOX', mset._inbox)] + sorted(mset._set.items()):
        rows = []
        for uid, m in sorted(mbx._messages.items()):
            d = m.internal_date
            if d.tzinfo is None:
                d = d.replace(tzinfo=timezone.utc)
            rows.append((uid, frozenset(bytes(f).lower()
                                        for f in m.permanent_flags),
                         d, _content_bytes(m._content)))
        out[name] = rows
    return out


def wire_dump(ctx, boxes):
    """The same through a read-only probe session (black box)."""
    p = ctx.extra.get('probe_conn')
    if p is None or ctx.session(p).done:
        p = ctx.connect()
        st = ctx.do(p, b'LOGIN alice pw')
        if st.cond != 'OK':
            raise RuntimeError(f'probe LOGIN failed: {st.raw!r}')
        ctx.extra['probe_conn'] = p
    out = {}
    for name in boxes:
        st = ctx.do(p, b'EXAMINE ' + name.encode())
        if st.cond != 'OK':
            out[name] = None
            continue
        st = ctx.do(p, b'UID FETCH 1:* (UID FLAGS INTERNALDATE RFC822.SIZE '
                       b'BODY.PEEK[])')
        rows = []
        for r in st.untagged('FETCH'):
            d = r.data
            rows.append((d.get('UID'),
                         frozenset(f.lower() for f in d.get('FLAGS', []))
                         - {b'\\recent'},
                         parse_date(d['INTERNALDATE']),
                         d.get(('BODY', b'', None))))
            if d.get('RFC822.SIZE') != len(rows[-1][3] or b''):
                rows[-1] = rows[-1] + ('size-mismatch', d.get('RFC822.SIZE'))
        out[name] = sorted(rows)
    ctx.do(p, b'CLOSE')
    return out


class Tol:
    def __init__(self) -> None:
        self.lenient_src = False      # addressed a message another session expunged
        self.flag_alts: dict = {}     # (box, uid) -> set of admissible flag sets
        self.may_vanish: dict = {}    # box -> set(uids) that may or may not go
        self.opt_adds: dict = {}      # box -> list of admissible (flags,date,body)
        self.src_may_keep: set = set()


def model_exec(store: rm.Store, sel, view, d, vio, site):
    """Apply descriptor d to the reference store.  sel = (name, readonly) or
    None.  Returns (expect, tol) where expect carries response-level
    predictions; the store is updated to the strict prediction."""
    op = d['op']
    exp = {'conds': {'OK'}, 'fetch': {}, 'pairs': None, 'appended': None,
           'addressed': [], 'gone': [], 'deselect': False}
    tol = Tol()
    if op == 'noop':
        return exp, tol
    if op == 'select':
        return exp, tol
    if op == 'append':
        box = store.box(d['dest'].decode())
        if box is None:
            exp['conds'] = {'NO'}
            return exp, tol
        if box.readonly:
            exp['conds'] = {'NO'}
            return exp, tol
        if any(m['body'] == b'' for m in d['msgs']):
            exp['conds'] = {'NO', 'BAD'}      # MULTIAPPEND cancel
            return exp, tol
        uids = []
        for m in d['msgs']:
            date = parse_date(m['date'].strip(b'"')) if m.get('date') else NOW
            # APPEND stores the flags as given (no PERMANENTFLAGS filter is
            # required by RFC 3501 for APPEND); \Recent is never storable
            fl = frozenset(f.lower() for f in (m.get('flags') or [])) \
                - {b'\\recent'}
            kw = {f for f in fl if not f.startswith(b'\\')}
            msg = box.add(fl, date, m['body'])
            if store.adopt_appends:
                msg.adopt_content = True
            if kw and not box.any_keyword:
                tol.flag_alts[(d['dest'].decode(), msg.uid)] = {
                    msg.flags, msg.flags - kw}
            uids.append(msg.uid)
        exp['appended'] = uids
        return exp, tol
    # selected-state commands
    name, readonly = sel
    box = store.box(name)
    if op == 'close':
        exp['deselect'] = True
        if not readonly:
            for m in list(box.msgs):
                if b'\\deleted' in m.flags:
                    if m.uid in view:
                        box.msgs.remove(m)
                    else:
                        tol.may_vanish.setdefault(name, set()).add(m.uid)
        return exp, tol
    if op in ('expunge', 'uidexpunge'):
        if readonly:
            exp['conds'] = {'NO'}
            return exp, tol
        if op == 'uidexpunge':
            mx = max(view) if view else 0
            try:
                mem = seqset.members(d['set'], mx)
            except ValueError:
                exp['conds'] = {'BAD'}
                return exp, tol
        for m in list(box.msgs):
            if b'\\deleted' in m.flags:
                if op == 'uidexpunge' and (m.uid not in mem or not view):
                    continue
                if m.uid in view:
                    box.msgs.remove(m)
                else:
                    tol.may_vanish.setdefault(name, set()).add(m.uid)
        return exp, tol
    addr = rm.addressed(view, d['set'], bool(d.get('uid')))
    live = [(s, u) for s, u in addr if box.get(u) is not None]
    gone = [(s, u) for s, u in addr if box.get(u) is None]
    exp['addressed'] = addr
    exp['gone'] = gone
    if gone:
        tol.lenient_src = True
        exp['conds'] = {'OK', 'NO'}
    if op == 'store':
        if readonly:
            exp['conds'] = {'NO'}
            return exp, tol
        for s, u in live:
            m = box.get(u)
            old = m.flags
            rm.apply_flags(box, m, d['mode'], d['flags'])
            if gone:
                tol.flag_alts[(name, u)] = {old, m.flags}
            if not d.get('silent'):
                exp['fetch'][s] = {'FLAGS': m.flags, 'uid': u}
        return exp, tol
    if op == 'fetch':
        item = d['item']
        sets_seen = not readonly and any(
            item.startswith(p) for p in (b'BODY[', b'RFC822.TEXT', b'BINARY['))\
            or (item == b'RFC822' and not readonly)
        for s, u in live:
            m = box.get(u)
            if sets_seen:
                old = m.flags
                m.flags = m.flags | {b'\\seen'}
                if gone:
                    tol.flag_alts[(name, u)] = {old, m.flags}
            exp['fetch'][s] = {'item': item, 'msg': m, 'uid': u}
        return exp, tol
    if op in ('copy', 'move'):
        dest = store.box(d['dest'].decode())
        if op == 'move' and readonly:
            exp['conds'] = {'NO'}
            return exp, tol
        if dest is None or dest.readonly:
            exp['conds'] = {'NO'}
            return exp, tol
        if not live:
            exp['conds'] = {'OK', 'NO'}
        pairs = []
        dname = 'INBOX' if d['dest'].upper() == b'INBOX' else d['dest'].decode()
        for s, u in live:
            m = box.get(u)
            new = dest.add(m.flags, m.date, m.body, m.token)
            pairs.append((u, new.uid))
            if gone:
                tol.opt_adds.setdefault(dname, []).append(new.uid)
            if op == 'move':
                box.msgs.remove(m)
                if gone:
                    tol.src_may_keep.add(u)
        exp['pairs'] = pairs
        return exp, tol
    raise AssertionError(d)


def expand_set(s: bytes):
    out = []
    for part in s.split(b','):
        if b':' in part:
            a, b = part.split(b':')
            a, b = int(a), int(b)
            out.extend(range(min(a, b), max(a, b) + 1))
        else:
            out.append(int(part))
    return out


def fetch_item_expect(item: bytes, m: rm.Msg):
    """-> list of (response key, admissible values set/list)"""
    body = m.body
    h, t = hdr_split(body)
    if item == b'FLAGS':
        return [('FLAGS', None)]
    if item in (b'BODY[]', b'BODY.PEEK[]'):
        return [(('BODY', b'', None), [body])]
    if item == b'RFC822':
        return [('RFC822', [body])]
    if item in (b'BINARY[]', b'BINARY.PEEK[]'):
        return [(('BINARY', b'', None), [body])]
    if item == b'BODY[TEXT]':
        return [(('BODY', b'TEXT', None), [t])]
    if item == b'RFC822.TEXT':
        return [('RFC822.TEXT', [t])]
    if item == b'BODY[HEADER]':
        return [(('BODY', b'HEADER', None), [h])]
    if item == b'RFC822.HEADER':
        return [('RFC822.HEADER', [h])]
    if item == b'BODY[]<2.7>':
        return [(('BODY', b'', 2), [body[2:9]])]
    if item == b'BODY.PEEK[TEXT]<0.3>':
        return [(('BODY', b'TEXT', 0), [t[0:3]])]
    if item == b'BODY[1]':
        return [(('BODY', b'1', None), [t])]
    if item == b'(UID INTERNALDATE RFC822.SIZE)':
        return [('UID', [m.uid]), ('RFC822.SIZE', [len(body)]),
                ('INTERNALDATE', None)]
    raise AssertionError(item)


def compare_state(actual, store: rm.Store, tol: Tol, site, out, what):
    for name, box in store.boxes.items():
        rows = actual.get(name)
        if rows is None:
            out.append(Violation('dump-missing-box', site,
                       f'{what}: mailbox {name} not dumpable'))
            continue
        arows = {r[0]: r for r in rows}
        mrows = {m.uid: m for m in box.msgs}
        vanish = tol.may_vanish.get(name, set())
        opt = set(tol.opt_adds.get(name, []))
        for uid, m in mrows.items():
            r = arows.get(uid)
            if r is None:
                if uid in vanish or uid in opt:
                    continue
                out.append(Violation('state.missing', site,
                           f'{what}: {name} UID {uid} should exist '
                           f'(model {sorted(mrows)}, actual {sorted(arows)})'))
                continue
            alts = tol.flag_alts.get((name, uid), {m.flags})
            if frozenset(r[1]) not in alts:
                out.append(Violation('state.flags', site,
                           f'{what}: {name} UID {uid} flags '
                           f'{sorted(r[1])}, model {[sorted(a) for a in alts]}'))
            if r[2] != m.date:
                out.append(Violation('state.date', site,
                           f'{what}: {name} UID {uid} INTERNALDATE {r[2]}, '
                           f'model {m.date}'))
            if r[3] != m.body:
                out.append(Violation('state.body', site,
                           f'{what}: {name} UID {uid} content differs '
                           f'({len(r[3] or b"")} vs {len(m.body)} bytes)'))
            if len(r) > 4:
                out.append(Violation('state.size', site,
                           f'{what}: {name} UID {uid} RFC822.SIZE {r[5]} != '
                           f'len(BODY[]) {len(r[3] or b"")}'))
        for uid in arows:
            if uid not in mrows:
                if name == tol_src_name(tol) and uid in tol.src_may_keep:
                    continue
                if uid in tol.src_may_keep:
                    continue
                out.append(Violation('state.extra', site,
                           f'{what}: {name} has unexpected UID {uid} '
                           f'(model {sorted(mrows)}, actual {sorted(arows)})'))


def tol_src_name(tol):
    return None


def fill_unknown(store: rm.Store, actual):
    """maildir: content/date of a message are adopted when first observed."""
    for name, box in store.boxes.items():
        rows = {r[0]: r for r in (actual.get(name) or [])}
        for m in box.msgs:
            r = rows.get(m.uid)
            if r is not None and getattr(m, 'adopt_content', False):
                m.date = r[2]
                m.body = r[3] or b''
                m.adopt_content = False


def adopt(store: rm.Store, actual, content=False):
    """After a tolerated deviation, continue from what actually happened."""
    for name, box in store.boxes.items():
        rows = actual.get(name) or []
        by = {m.uid: m for m in box.msgs}
        new = []
        for r in rows:
            m = by.get(r[0]) or rm.Msg(r[0], r[1], r[2], r[3])
            m.flags = frozenset(r[1])
            if content:
                m.date = r[2]
                m.body = r[3] or b''
            new.append(m)
        box.msgs = new
        if new:
            box.next_uid = max(box.next_uid, new[-1].uid + 1)


class Model:
    name = 'c10'

    def __init__(self, kind='dict') -> None:
        self.kind = kind
        self.params = {'kind': kind}
        self.base = 101 if kind == 'dict' else 1
        self._alpha = driver_alphabet(self.base)
        for e in self._alpha:
            e['name'] = f"s{e['s']}:" + ' ; '.join(name_of(c) for c in e['cmds'])

    def alphabet(self):
        return self._alpha

    def dump(self, ctx):
        if self.kind == 'dict':
            return glass_dump(ctx.world)
        wd = wire_dump(ctx, ['INBOX', 'Other'])
        return {k: [tuple(r[:4]) for r in (v or [])] for k, v in wd.items()}

    _tmpl = {}

    def _maildir_template(self):
        """A prepared store (mailboxes + initial messages), built once per
        process and copied for every execution."""
        t = Model._tmpl.get(self.kind)
        if t is None:
            w = MaildirWorld(layout=self.kind, users={'alice': ('pw', ())},
                             jail_cheap=True)
            ctx = Ctx(w)
            ctx.connect()
            assert ctx.do(0, b'LOGIN alice pw').cond == 'OK'
            assert ctx.do(0, b'CREATE Other').cond == 'OK'
            for dest, body, fl in self._init_msgs():
                st = ctx.do(0, render(dict(op='append', dest=dest,
                                           msgs=[dict(body=body, flags=fl)])))
                assert st.cond == 'OK', st.raw
            # consume the \Recent claim like a store that has been in use
            assert ctx.do(0, b'SELECT INBOX').cond == 'OK'
            assert ctx.do(0, b'SELECT Other').cond == 'OK'
            ctx.do(0, b'LOGOUT')
            w.own_root = False
            ctx.close()
            t = Model._tmpl[self.kind] = w.root
        return t

    @staticmethod
    def _init_msgs():
        return [(b'INBOX', mk(1), []), (b'INBOX', mk(2), [b'\\Seen']),
                (b'INBOX', mk(3), [b'\\Flagged']), (b'Other', mk(0), [])]

    def new(self):
        store = rm.Store()
        store.boxes['INBOX'] = rm.Box(next_uid=self.base)
        store.boxes['Other'] = rm.Box(next_uid=self.base)
        if self.kind == 'dict':
            w = DictWorld(users={'alice': ('pw', ())})
            ctx = Ctx(w)
            for si in (0, 1):
                ctx.connect()
                assert ctx.do(si, b'LOGIN alice pw').cond == 'OK'
            assert ctx.do(0, b'CREATE Other').cond == 'OK'
            for dest, body, fl in self._init_msgs():
                st = ctx.do(0, render(dict(op='append', dest=dest,
                                           msgs=[dict(body=body, flags=fl)])))
                assert st.cond == 'OK', st.raw
                store.box(dest.decode()).add(fl, NOW, body)
        else:
            import shutil
            from .. import fsjail
            from ..worlds import scratch_root
            troot = self._maildir_template()
            root = scratch_root()
            with fsjail.unjailed():
                shutil.rmtree(root)
                shutil.copytree(troot, root, symlinks=True)
            w = MaildirWorld(layout=self.kind, root=root, reuse=True,
                             users={'alice': ('pw', ())}, jail_cheap=True)
            w.own_root = True
            ctx = Ctx(w)
            for si in (0, 1):
                ctx.connect()
                assert ctx.do(si, b'LOGIN alice pw').cond == 'OK'
            for dest, body, fl in self._init_msgs():
                store.box(dest.decode()).add(fl, NOW, body)
        ctx.extra['sel'] = {}
        for si in (0, 1):
            st = ctx.do(si, b'SELECT INBOX')
            assert st.cond == 'OK'
            for r in st.responses:
                if r.kind == 'untagged' and r.code == b'PERMANENTFLAGS':
                    ctx.extra['permflags'] = r.code_arg
            assert ctx.do(si, b'FETCH 1:* (UID FLAGS)').cond == 'OK'
            ctx.extra['sel'][si] = ('INBOX', False)
        ctx.extra['store'] = store
        if self.kind != 'dict':
            store.adopt_appends = True
            # the maildir backend rewrites line ends and keeps second
            # granularity: take content and dates as first observed (C03 is
            # the property about verbatim storage), and the flags it permits
            # from PERMANENTFLAGS
            d0 = self.dump(ctx)
            ctx.extra['last_dump'] = d0
            adopt(store, d0, content=True)
            perm = ctx.extra.get('permflags') or []
            for box in store.boxes.values():
                box.any_keyword = b'\\*' in perm
                box.permitted = frozenset(
                    f.lower() for f in perm if f.startswith(b'\\')
                    and f != b'\\*') or rm.SYSTEM
        ctx.steps.clear()
        for sh in ctx.shadows:
            sh.take_problems()
        return ctx

    def enabled(self, ctx):
        return range(len(self._alpha))

    def view(self, ctx, si):
        s = ctx.session(si)
        sel = s.state._selected if s.state is not None else None
        return list(sel.messages._sorted) if sel is not None else None

    def exec_cmd(self, ctx, si, d, *, strict_wire=False):
        """Run one descriptor on the real server and on the model; compare."""
        out = []
        store: rm.Store = ctx.extra['store']
        sel = ctx.extra['sel'].get(si)
        site = name_of(d)
        view = self.view(ctx, si)
        if sel is None and d['op'] not in ('append', 'select', 'noop'):
            return out
        exp, tol = model_exec(store, sel, view or [], d, out, site)
        st = ctx.do(si, render(d))
        for h in ctx.harness_errors:
            raise RuntimeError(h)
        if st.tagged is None:
            out.append(Violation('no-tagged-response', site, repr(st.raw[-80:])))
            return out
        cond = st.cond
        if cond not in exp['conds']:
            out.append(Violation('result.condition', site,
                       f'{site}: answered {cond} {st.tagged.text!r}, model '
                       f'admits {sorted(exp["conds"])} (view {view})'))
        if d['op'] == 'select':
            ctx.extra['sel'][si] = ('INBOX', False) if cond == 'OK' else None
        if exp['deselect'] and cond == 'OK':
            ctx.extra['sel'][si] = None
        actual = self.dump(ctx)
        ctx.extra['last_dump'] = actual
        if self.kind != 'dict':
            fill_unknown(store, actual)
        if cond != 'OK' and 'OK' in exp['conds']:
            # admissible refusal: nothing may have changed (tolerances aside)
            pass
        if cond in ('NO', 'BAD'):
            # refused: compare against the store *before* the command unless
            # the model itself predicted the refusal (then it did not change)
            if 'OK' in exp['conds']:
                # model applied the strict effect; a NO is admissible only in
                # lenient situations: accept either outcome per message
                pass
        # response-level predictions
        if cond == 'OK':
            fetches = {}
            # the command's own results precede any EXPUNGE (numbers after
            # an EXPUNGE refer to the renumbered view)
            for r in st.responses:
                if r.kind == 'untagged' and r.name == 'EXPUNGE':
                    break
                if r.kind == 'untagged' and r.name == 'FETCH':
                    fetches.setdefault(r.num, []).append(r.data)
            addressed_seqs = {s for s, _ in exp['addressed']}
            own = []
            for r in st.responses:
                if r.kind == 'untagged' and r.name == 'EXPUNGE':
                    break
                if r.kind == 'untagged' and r.name == 'FETCH':
                    own.append(r)
            for r in own:
                has_body = any(isinstance(k, tuple) or
                               (isinstance(k, str) and k.startswith('RFC822')
                                and k != 'RFC822.SIZE')
                               for k in r.data if k != '_order')
                if has_body and d['op'] == 'fetch' and \
                        r.num not in addressed_seqs:
                    out.append(Violation('result.unaddressed', site,
                               f'{site}: body data for seq {r.num}, not in '
                               f'the addressed set {sorted(addressed_seqs)}'))
            for s, e in exp['fetch'].items():
                datas = fetches.get(s, [])
                merged = {}
                for dd in datas:
                    merged.update(dd)
                if d['op'] == 'store':
                    if 'FLAGS' not in merged:
                        out.append(Violation('result.store-no-fetch', site,
                                   f'{site}: no FETCH FLAGS for seq {s} '
                                   f'(UID {e["uid"]})'))
                    else:
                        got = frozenset(f.lower() for f in merged['FLAGS']) \
                            - {b'\\recent'}
                        alts = tol.flag_alts.get((sel[0], e['uid']),
                                                 {e['FLAGS']})
                        if got not in alts:
                            out.append(Violation('result.store-flags', site,
                                       f'{site}: seq {s} UID {e["uid"]} '
                                       f'reported {sorted(got)}, model '
                                       f'{sorted(e["FLAGS"])}'))
                    if d.get('uid') and merged.get('UID') not in (None,
                                                                  e['uid']):
                        out.append(Violation('result.store-uid', site,
                                   f'{site}: seq {s} labelled UID '
                                   f'{merged.get("UID")}, model {e["uid"]}'))
                else:
                    m = e['msg']
                    for key, admissible in fetch_item_expect(e['item'], m):
                        if key not in merged:
                            if e['item'] == b'BODY[1]':
                                continue
                            out.append(Violation('result.fetch-missing', site,
                                       f'{site}: seq {s} UID {m.uid}: item '
                                       f'{key} not returned'))
                            continue
                        val = merged[key]
                        if key == 'FLAGS':
                            got = frozenset(f.lower() for f in val) \
                                - {b'\\recent'}
                            alts = tol.flag_alts.get((sel[0], m.uid),
                                                     {m.flags})
                            if got not in alts:
                                out.append(Violation(
                                    'result.fetch-flags', site,
                                    f'{site}: UID {m.uid} flags '
                                    f'{sorted(got)}, model {sorted(m.flags)}'))
                        elif key == 'INTERNALDATE':
                            if parse_date(val) != m.date:
                                out.append(Violation(
                                    'result.fetch-date', site,
                                    f'{site}: UID {m.uid} date {val!r}, '
                                    f'model {m.date}'))
                        elif val not in admissible:
                            if e['item'] == b'BODY[1]' and val in (None, b''):
                                continue
                            out.append(Violation(
                                'result.fetch-value', site,
                                f'{site}: UID {m.uid} {key}: got '
                                f'{val!r:.80}, model {admissible[0]!r:.80}'))
                    if d.get('uid') and merged.get('UID') != m.uid:
                        out.append(Violation('result.fetch-uid', site,
                                   f'{site}: seq {s} labelled UID '
                                   f'{merged.get("UID")}, model {m.uid}'))
            if exp['pairs'] is not None:
                code = None
                if st.tagged.code == b'COPYUID':
                    code = st.tagged.code_arg
                for r in st.responses:
                    if r.kind == 'untagged' and r.code == b'COPYUID':
                        code = r.code_arg
                if exp['pairs'] and not tol.lenient_src:
                    if code is None:
                        out.append(Violation('result.copyuid-missing', site,
                                   f'{site}: no COPYUID, model {exp["pairs"]}'))
                    else:
                        src = expand_set(code[1])
                        dst = expand_set(code[2])
                        if list(zip(src, dst)) != sorted(exp['pairs']) or \
                                len(src) != len(dst):
                            out.append(Violation(
                                'result.copyuid', site,
                                f'{site}: COPYUID {code[1]!r} {code[2]!r}, '
                                f'model pairs {exp["pairs"]}'))
                if not exp['pairs'] and code is not None:
                    out.append(Violation('result.copyuid-extra', site,
                               f'{site}: COPYUID {code} but nothing addressed'))
            if exp['appended'] is not None:
                if st.tagged.code != b'APPENDUID':
                    out.append(Violation('result.appenduid-missing', site,
                               f'{site}: {st.tagged.raw!r}'))
                else:
                    got = expand_set(st.tagged.code_arg[1])
                    if got != exp['appended']:
                        out.append(Violation('result.appenduid', site,
                                   f'{site}: APPENDUID {got}, model '
                                   f'{exp["appended"]}'))
        # state afterwards
        if cond in ('NO', 'BAD') and 'OK' in exp['conds']:
            # tolerated refusal: require that nothing changed
            pre = ctx.extra.get('pre_dump')
            if pre is not None and actual != pre:
                out.append(Violation('state.changed-on-refusal', site,
                           f'{site}: answered {cond} but mailbox contents '
                           f'changed'))
            adopt(store, actual)
        else:
            n0 = len(out)
            compare_state(actual, store, tol, site, out, site)
            if len(out) > n0 or tol.lenient_src or tol.may_vanish \
                    or tol.flag_alts:
                adopt(store, actual)
        ctx.extra['pre_dump'] = actual
        for sh in ctx.shadows:
            sh.take_problems()
        return out

    def apply(self, ctx, i):
        ev = self._alpha[i]
        out = []
        ctx.extra['pre_dump'] = self.dump(ctx)
        for d in ev['cmds']:
            out += self.exec_cmd(ctx, ev['s'], d)
        return out

    def key(self, ctx):
        if self.kind != 'dict':
            # no state abstraction on maildir: histories are never merged
            return tuple((st.si, st.sent[0][:40], st.summary())
                         for st in ctx.steps)
        return (dict_world_key(ctx.world, ctx.shadows),
                tuple(sorted(ctx.extra['sel'].items())))

    def sig(self, ctx):
        """cheap 'did anything change' signature used to reuse a world for
        the next probe"""
        if self.kind == 'dict':
            return _digest(self.key(ctx)) + _digest(repr(
                ctx.extra['store'].boxes['INBOX'].rows()).encode())
        views = tuple(tuple(self.view(ctx, si) or ()) for si in (0, 1))
        sels = tuple(sorted(ctx.extra['sel'].items()))
        d = ctx.extra.get('last_dump')
        if d is None:
            d = self.dump(ctx)
        return _digest((repr(d), views, sels,
                        tuple(sh.key() for sh in ctx.shadows[:2])))

    def outcome(self, ctx):
        return ctx.last.summary() if ctx.last else None

    def probe(self, ctx):
        return []

    def close(self, ctx):
        ctx.close()

    def show_last(self, ctx):
        ctx.show_last()


# ---------------------------------------------------------------------------
# second level: every probe in every state

_M = None
_PROBES = None


def _level2(task):
    history, lo, hi = task
    m: Model = _M
    out = []
    evals = 0
    rebuilt = 0
    ctx = None
    k0 = None
    try:
        for pi in range(lo, hi):
            d = _PROBES[pi]
            if ctx is None:
                ctx = replay_hist(m, history)
                k0 = m.sig(ctx)
                rebuilt += 1
            ctx.extra['pre_dump'] = ctx.extra.get('last_dump') \
                if m.kind != 'dict' and ctx.extra.get('last_dump') is not None \
                else m.dump(ctx)
            viols = m.exec_cmd(ctx, 0, d)
            evals += 1
            changed = (m.sig(ctx) != k0)
            if changed or viols:
                hsel = _digest((history, pi))[0] < 20     # ~8% by hash
                if m.kind == 'dict' and ((d['op'] != 'fetch' and hsel)
                                         or viols):
                    # black-box cross-check of the glass-box dump
                    g = glass_dump(ctx.world)
                    wd = wire_dump(ctx, list(g))
                    for name in g:
                        a = sorted((r[0], r[1], r[2], r[3]) for r in g[name])
                        b = wd[name]
                        if b is None or a != [tuple(x[:4]) for x in b] \
                                or any(len(x) > 4 for x in b):
                            viols.append(Violation(
                                'dump.wire-vs-store', name_of(d),
                                f'{name}: probe session sees {b!r:.300}, '
                                f'store holds {a!r:.300}'))
                m.close(ctx)
                ctx = None
            for v in viols:
                v['replay'] = {'model': 'c10', 'params': m.params,
                               'history': list(history), 'probe': pi,
                               'probe_cmd': name_of(d)}
                if m.kind != 'dict':
                    v['site'] = m.kind + ':' + v['site']
            out += viols
    finally:
        if ctx is not None:
            m.close(ctx)
    return out, evals, rebuilt


def run(*, tier, seed, jobs, progress, opts):
    with scratch_parent():
        return _run(tier=tier, seed=seed, jobs=jobs, progress=progress,
                    opts=opts)


def _run(*, tier, seed, jobs, progress, opts):
    global _M, _PROBES
    t0 = time.perf_counter()
    if 'depth' in opts:
        plans = [(opts.get('kind', 'dict'), int(opts['depth']))]
    elif tier == 'quick':
        plans = [('dict', 2), ('++', 1)]
    else:
        plans = [('dict', 3), ('++', 2), ('fs', 1)]
    violations = []
    cov = {'plans': [], 'states': 0, 'transitions': 0,
           'traces_validated_against_impl': 0, 'samples': []}
    njobs = jobs or min(16, os.cpu_count() or 1)
    for kind, depth in plans:
        m = Model(kind)
        res = bfs(m, depth, jobs=jobs, seed=seed, progress=progress)
        if res.errors:
            print(res.errors[0])
            raise RuntimeError('harness error during exploration')
        vs = list(res.violations)
        if kind != 'dict':
            for v in vs:
                v['site'] = kind + ':' + v['site']
        violations += vs
        probes = probe_alphabet(reduced=(tier == 'quick' or kind != 'dict')
                                and 'full' not in opts, base=m.base)
        _M, _PROBES = m, probes
        hist = sorted(res.state_histories, key=lambda h: (len(h), h))
        cap = int(opts.get('max_states', 400 if tier == 'quick' else 100000))
        capped = len(hist) > cap
        hist = hist[:cap]
        evals = 0
        step = 60 if kind != 'dict' else 250
        l2 = [(h, lo, min(lo + step, len(probes))) for h in hist
              for lo in range(0, len(probes), step)]
        with mp.get_context('fork').Pool(njobs) as pool:
            for k, (vs, ev, rb) in enumerate(
                    pool.imap_unordered(_level2, l2, chunksize=1)):
                violations += vs
                evals += ev
                if progress and k % 50 == 0:
                    print(f'  level2[{kind}]: {k}/{len(l2)} tasks, {evals} '
                          f'probe executions, {len(violations)} violations, '
                          f't={time.perf_counter() - t0:.0f}s', flush=True)
        c = res.coverage(m)
        cov['plans'].append({
            'backend': kind, 'driver_depth': depth,
            'dedup': kind == 'dict',
            **{k: c[k] for k in ('states', 'depth_completed',
                                 'frontier_sizes', 'state_cap_hit')},
            'driver_transitions': c['transitions'],
            'probe_alphabet_size': len(probes), 'probe_executions': evals,
            'states_probed': len(hist), 'states_probed_capped': capped})
        cov['states'] += c['states']
        cov['transitions'] += c['transitions'] + evals
        cov['traces_validated_against_impl'] += c['transitions'] + evals
        cov['samples'] += [[e['name'] for e in s] for s in c['samples'][:2]] \
            + [name_of(p) for p in probes[::197]]
        cov['driver_alphabet'] = [e['name'] for e in m.alphabet()]
    cov['exhaustive'] = all(not p['states_probed_capped']
                            for p in cov['plans'])
    cov['rule'] = ('per backend - level 1: BFS over driver sequences <= depth '
                   '(dict: canonical-state dedup; maildir: no dedup); level '
                   '2: every probe command applied once in every reached '
                   'state and compared with the reference model')
    return finish(PROP, tier=tier, seed=seed, level='model_checking',
                  coverage=cov, violations=violations, t0=t0, assumptions=[
                      'acting session + one concurrent session',
                      'tolerances listed in DESIGN.md section 3 C10 '
                      '(RFC 2180 behaviour for messages another session '
                      'expunged, keywords outside PERMANENTFLAGS, \\Deleted '
                      'messages outside the session view on EXPUNGE)',
                      'maildir: content and INTERNALDATE of an appended '
                      'message are adopted as first observed (the backend '
                      'rewrites line ends; verbatim storage is C03)'])


def replay(rec):
    r = rec['replay']
    m = Model((r.get('params') or {}).get('kind', 'dict'))
    if 'probe' in r:
        ctx = replay_hist(m, r['history'])
        for st in ctx.steps:
            pass
        d = probe_alphabet(base=m.base)[r['probe']]
        ctx.extra['pre_dump'] = m.dump(ctx)
        print('HISTORY', [m.alphabet()[i]['name'] for i in r['history']])
        viols = m.exec_cmd(ctx, 0, d)
        ctx.show_last()
        m.close(ctx)
    else:
        viols = run_history(m, r['history'])
    for v in viols:
        print('VIOLATION-REPLAYED', v['rule'], v['site'], v['msg'])
    return 1 if viols else 0
