"""C02 -- cross-session convergence: after NOOP/CHECK at any quiescent point a
session's view equals the stored mailbox."""
from __future__ import annotations

from ..explore import run_history
from . import c01
from .seqmodel import SeqModel

PROP = 'C02'


def run(*, tier, seed, jobs, progress, opts):
    return c01.run(tier=tier, seed=seed, jobs=jobs, progress=progress,
                   opts=opts, prop=PROP, oracle='c02', rule=(
                       'same state space as C01; at every explored state, on '
                       'a discarded copy, every selecting session sends NOOP '
                       'and its shadow (count, UID per position, flags) is '
                       'compared with the stored mailbox (glass-box)'),
                   assumptions=[
                       'dict backend, asyncio subsystem; <= 3 sessions; '
                       'maildir: E7 thread/process interleavings of one '
                       'command per session',
                       'stored truth read glass-box from MailboxData._messages',
                       'slots whose flags the server never reported are not '
                       'compared'])


def replay(rec):
    r = rec['replay']
    if r.get('mt02'):
        return c01.replay_mt(r)
    p = dict(r['params'])
    p.pop('oracle', None)
    m = SeqModel(oracle='c02', **p)
    viols = run_history(m, r['history'])
    for v in viols:
        print('VIOLATION-REPLAYED', v['rule'], v['site'], v['msg'])
    return 1 if viols else 0
