"""C17 on maildir under real concurrency (E7): a session that works on a
message still lying in new/ (delivered while it had the mailbox selected)
races with another session's read-write SELECT, which claims new/.  Every
schedule of their filesystem calls up to a preemption bound; afterwards each
session and a fresh one list what they hold \\Recent."""
from __future__ import annotations

from ..report import Violation
from . import mtmaildir as mt

SEL = lambda i: [b'SELECT INBOX']     # noqa: E731
NONE = lambda i: []                   # noqa: E731

PROGRAMS = {
    'STORE-new': (SEL, lambda i: [b'NOOP', b'STORE * +FLAGS (\\Seen)']),
    'FETCH-new-body': (SEL, lambda i: [b'NOOP', b'FETCH * (BODY[])']),
    'COPY-new': (SEL, lambda i: [b'NOOP', b'COPY * INBOX']),
    'MOVE-new': (SEL, lambda i: [b'NOOP', b'MOVE * a']),
    'NOOP': (SEL, lambda i: [b'NOOP']),
    'EXPUNGE-new': (SEL, lambda i: [b'NOOP', b'STORE * +FLAGS (\\Deleted)',
                                    b'EXPUNGE']),
    'SELECT': (NONE, lambda i: [b'SELECT INBOX']),
    'EXAMINE': (NONE, lambda i: [b'EXAMINE INBOX']),
    'SELECT-again': (SEL, lambda i: [b'SELECT INBOX']),
}
PAIRS = [(a, b) for a in ('STORE-new', 'FETCH-new-body', 'COPY-new', 'MOVE-new',
                          'NOOP', 'EXPUNGE-new', 'SELECT-again')
         for b in ('SELECT', 'EXAMINE')] + [('SELECT', 'SELECT')]


def run_schedule(layout, names, prefix):
    from ..procs import Sched
    n = len(names)
    cl = mt.Cluster(layout, n)
    try:
        for i, nm in enumerate(names):
            for line in PROGRAMS[nm][0](i):
                cl.cmd(i, line)
        cl.deliver()          # a file in INBOX/new, no UID yet
        sched = Sched(cl.jail, private_dirs=[cl.worlds[0].tmp_dir],
                      shared_root=cl.worlds[0].root)
        procs = [sched.add(cl.worlds[i], cl.sessions[i], PROGRAMS[nm][1](i))
                 for i, nm in enumerate(names)]
        ex = sched.run(prefix)
        info = {'stuck': ex.stuck,
                'conds': [[r.name for _, r, _ in p.results] for p in procs],
                'recent': [], 'selected_rw': []}

        def recent_of(i):
            tg, rs = cl.cmd(i, b'FETCH 1:* (UID FLAGS)', need_ok=False)
            if tg is None or tg.name != 'OK':
                return None
            return sorted(r.data.get('UID') for r in rs
                          if r.kind == 'untagged' and r.name == 'FETCH'
                          and any(f.lower() == b'\\recent'
                                  for f in r.data.get('FLAGS', [])))
        for i, nm in enumerate(names):
            info['recent'].append(None if nm == 'EXAMINE' else recent_of(i))
        tg, rs = cl.cmd(n, b'SELECT INBOX', need_ok=False)
        info['recent'].append(recent_of(n))
        return ex, info
    finally:
        cl.close()


def judge(layout, names, ex, info):
    site = f'{layout}:threads:{names[0]}||{names[1]}'
    out = []
    sched = mt.explain(ex)

    def v(rule, msg):
        out.append(Violation(rule, site, f'{msg}; schedule: {sched}'))
    if info['stuck']:
        v('no-completion', f'process(es) {info["stuck"]} never answered '
          f'(answers {info["conds"]})')
    seen: dict = {}
    for who, uids in zip(list(names) + ['fresh'], info['recent']):
        for u in uids or ():
            seen.setdefault(u, []).append(who)
    for u, whos in seen.items():
        if len(whos) > 1:
            v('recent-twice', f'UID {u} is \\Recent for {whos} (read-write '
              f'selections) at the same time')
    return out


def task(args):
    layout, names, bound = args[:3]
    sub = args[3] if len(args) > 3 else None
    from ..procs import explore, ScheduleError
    vios = []
    outcomes = set()

    def run(prefix):
        ex, info = run_schedule(layout, names, prefix)
        for x in judge(layout, names, ex, info):
            x['replay'] = {'mt17': True, 'layout': layout,
                           'names': list(names), 'prefix': list(prefix)}
            vios.append(x)
        outcomes.add(repr((info['recent'], info['conds'])))
        return ex, info
    try:
        st = explore(run, bound, prefixes=sub)
    except ScheduleError as exc:
        return {'error': repr(exc), 'names': names}
    finally:
        mt.drop_templates()
    st.update(violations=vios, outcomes=len(outcomes), names=names)
    return st


def tasks(tier):
    T = [('++', pr, 1) for pr in PAIRS]
    if tier != 'quick':
        T += [('fs', pr, 1) for pr in PAIRS]
        for pr in PAIRS[:4]:
            T += [('++', pr, 2, ch) for ch in mt.split_root(
                lambda pr=pr: run_schedule('++', pr, [])[0], 2)]
    return T
