"""C20, FileLock under real concurrency (E7): 2-3 processes/threads, each with
its own event loop, take the same lock file around a read-modify-write of a
shared counter file; every schedule of their filesystem calls with at most
``bound`` preemptions."""
from __future__ import annotations

import os
import shutil

from .. import fsjail, worlds
from ..loop import SharedVLoop
from ..procs import Sched, ScheduleError, explore
from ..report import Violation


class Boom(Exception):
    pass


def run_schedule(kinds, prefix, stale=None, raises=()):
    """kinds: per process 'W' or 'R' or 'WW' (two acquisitions)."""
    from pymap.concurrent import FileLock
    worlds.install_seams()
    root = worlds.scratch_root()
    jail = fsjail.Jail(root, cheap=True)
    jail.__enter__()
    clock = [0.0]
    loops = [SharedVLoop(clock) for _ in kinds]
    saved_loop = worlds._current_loop
    worlds._current_loop = loops[0]
    lock_path = os.path.join(root, 'x.lock')
    data_path = os.path.join(root, 'counter')
    with open(data_path, 'w') as f:
        f.write('0')
    if stale is not None:
        with open(lock_path, 'x'):
            pass
        # old: expired before anybody arrives; young: a live foreign lock;
        # aging: expires while the waiters are in their retry loops
        age = {'old': 700.0, 'young': 1.0, 'aging': 597.0}[stale]
        now = worlds.TIME_BASE
        with fsjail.unjailed():
            os.utime(lock_path, (now - age, now - age))
    holders: dict = {}
    info = {'overlap': [], 'done': [], 'timeout': [], 'entered': 0,
            'errors': []}

    async def body(i, kind):
        for k, c in enumerate(kind):
            lk = FileLock(lock_path)
            cm = lk.write_lock() if c == 'W' else lk.read_lock()
            try:
                async with cm:
                    holders[i] = c
                    others = [(j, x) for j, x in holders.items() if j != i]
                    if c == 'W' and any(x == 'W' for _, x in others):
                        info['overlap'].append((i, dict(holders)))
                    try:
                        if c == 'W':
                            info['entered'] += 1
                            with open(data_path) as f:
                                v = int(f.read() or 0)
                            with open(data_path, 'w') as f:
                                f.write(str(v + 1))
                        else:
                            with open(data_path) as f:
                                f.read()
                        if (i, k) in raises:
                            raise Boom()
                    finally:
                        holders.pop(i, None)
            except Boom:
                pass
            except TimeoutError:
                info['timeout'].append(i)
                return
        info['done'].append(i)

    sched = Sched(jail, shared_root=root)
    try:
        for i, kind in enumerate(kinds):
            sched.add_task(loops[i], loops[i].spawn(body(i, kind)))
        ex = sched.run(prefix)
        with open(data_path) as f:
            info['counter'] = int(f.read() or 0)
        info['lock_left'] = os.path.exists(lock_path)
        info['stuck'] = ex.stuck
        for p in sched.procs:
            if p.task.done() and not p.task.cancelled() \
                    and p.task.exception() is not None:
                info['errors'].append((p.pid, repr(p.task.exception())))
        return ex, info
    finally:
        for lp in loops:
            lp.shutdown()
        worlds._current_loop = saved_loop
        jail.__exit__()
        shutil.rmtree(root, ignore_errors=True)


def explain(ex):
    from .mtmaildir import explain as e
    return e(ex)


def judge(kinds, stale, raises, ex, info):
    site = f'file-threads({stale}):' + '|'.join(kinds) + \
        ('+raise' if raises else '')
    out = []
    sched = explain(ex)

    def v(rule, msg):
        st = site
        if stale == 'old' and rule in ('writers-overlap', 'lost-update'):
            # one root cause whatever the program: the takeover of an
            # expired lock file (stat, unlink, create) is not atomic
            st = 'file-threads:expired-lock-takeover'
        out.append(Violation(rule, st, f'{msg}; schedule: {sched}'))
    if info['overlap']:
        i, h = info['overlap'][0]
        v('writers-overlap', f'process {i} entered its write section while '
          f'{h} held the lock')
    if info['counter'] != info['entered']:
        v('lost-update', f'{info["entered"]} write sections ran but the '
          f'counter they increment reads {info["counter"]}')
    if stale == 'aging':
        # the foreign holder never releases: timing out is admissible, and so
        # is taking the lock over once it has expired -- one writer at a time
        pass
    elif stale != 'young':
        if info['stuck'] or info['timeout']:
            v('not-granted', f'stuck {info["stuck"]}, timed out '
              f'{info["timeout"]} although every holder released')
        if info['lock_left']:
            v('lockfile-left', 'lock file still present after every holder '
              'exited')
    else:
        if info['entered']:
            v('entered-held-lock', 'a write section ran while a live foreign '
              'lock file existed')
    for pid, e in info['errors']:
        v('exception', f'process {pid}: {e}')
    return out


def task(args):
    kinds, stale, raises, bound = args
    vios = []
    outcomes = set()

    def run(prefix):
        ex, info = run_schedule(kinds, prefix, stale, raises)
        for x in judge(kinds, stale, raises, ex, info):
            x['replay'] = {'mt': True, 'kinds': list(kinds), 'stale': stale,
                           'raises': [list(r) for r in raises],
                           'prefix': list(prefix)}
            vios.append(x)
        outcomes.add((info['counter'], tuple(info['done']),
                      tuple(info['timeout'])))
        return ex, info
    try:
        st = explore(run, bound)
    except ScheduleError as exc:
        return {'error': repr(exc), 'args': args}
    st['violations'] = vios
    st['outcomes'] = len(outcomes)
    st['args'] = (kinds, stale, raises, bound)
    return st


def tasks(tier):
    T = []
    b = 2 if tier == 'quick' else 3
    for kinds in (('W', 'W'), ('W', 'R'), ('WW', 'W')):
        T.append((kinds, None, (), b))
        T.append((kinds, None, ((0, 0),), b))
        T.append((kinds, 'old', (), b))
    T.append((('W', 'W'), 'young', (), 1))
    T.append((('W', 'W'), 'aging', (), 2))
    T.append((('W', 'W', 'W'), None, (), 2))
    T.append((('W', 'W', 'W'), 'old', (), 2))
    if tier != 'quick':
        T.append((('W', 'W', 'R'), None, (), 2))
        T.append((('WW', 'WW'), None, (), 3))
    return T
