"""Shared multi-session model for C01 (sequence numbers never diverge) and C02
(cross-session convergence): N sessions on one dict-backend mailbox, whole
commands as atomic steps (DESIGN F2/F3: under asyncio that is *all*
interleavings of these programs), IDLE/DONE as two events."""
from __future__ import annotations

from ..canon import dict_world_key
from ..driver import Ctx
from ..report import Violation
from ..worlds import DictWorld


def msg(i: int) -> bytes:
    return (b'From: u%d@example.com\r\nSubject: m%d\r\n\r\nbody %d\r\n'
            % (i, i, i))


def lit(data: bytes) -> bytes:
    return b'{%d+}\r\n%s' % (len(data), data)


CMDS = [
    ('STORE1+Del', b'STORE 1 +FLAGS (\\Deleted)'),
    ('STORE2+Del.SILENT', b'STORE 2 +FLAGS.SILENT (\\Deleted)'),
    ('STORE*-Del', b'STORE * -FLAGS (\\Deleted)'),
    ('UIDSTORE102+Flagged', b'UID STORE 102 +FLAGS (\\Flagged)'),
    ('EXPUNGE', b'EXPUNGE'),
    ('UIDEXPUNGE101', b'UID EXPUNGE 101'),
    ('APPEND', b'APPEND INBOX ' + lit(msg(9))),
    ('COPY1-INBOX', b'COPY 1 INBOX'),
    ('COPY2-Other', b'COPY 2 Other'),
    ('MOVE1-Other', b'MOVE 1 Other'),
    ('FETCHall', b'FETCH 1:* (UID FLAGS)'),
    ('SEARCHall', b'SEARCH ALL'),
    ('UIDSEARCHall', b'UID SEARCH ALL'),
    ('NOOP', b'NOOP'),
    ('CHECK', b'CHECK'),
    ('UIDFETCH1:*', b'UID FETCH 1:* (FLAGS)'),
    ('STORE3Flagged', b'STORE 3 FLAGS (\\Flagged)'),
]
SMALL = ['STORE1+Del', 'STORE2+Del.SILENT', 'STORE*-Del', 'UIDSTORE102+Flagged',
         'EXPUNGE', 'UIDEXPUNGE101', 'APPEND', 'COPY1-INBOX', 'MOVE1-Other',
         'FETCHall', 'SEARCHall', 'UIDSEARCHall', 'NOOP', 'CHECK']


class SeqModel:
    name = 'seq'

    def __init__(self, nsess: int = 2, oracle: str = 'c01',
                 cmds=None, idle: bool = True, observer: bool = False,
                 probe_cmd: bytes = b'NOOP', predeleted: bool = False,
                 ro_actor: bool = False) -> None:
        self.nsess = nsess
        # session 0 has the mailbox selected read-only (EXAMINE) and still
        # sends the whole alphabet: its mutations are refused
        self.ro_actor = ro_actor
        self.oracle = oracle
        self.observer = observer
        # start from a non-initial state: messages 1 and 2 already \Deleted
        self.predeleted = predeleted
        if isinstance(probe_cmd, str):
            probe_cmd = probe_cmd.encode()
        self.probe_cmd = probe_cmd
        names = cmds if cmds is not None else SMALL
        table = dict(CMDS)
        self.params = {'nsess': nsess, 'oracle': oracle, 'cmds': names,
                       'idle': idle, 'observer': observer,
                       'probe_cmd': probe_cmd, 'predeleted': predeleted,
                       'ro_actor': ro_actor}
        self._alpha = []
        for si in range(nsess):
            for n in names:
                self._alpha.append({'s': si, 'name': n, 'line': table[n]})
            if idle:
                self._alpha.append({'s': si, 'name': 'IDLE', 'line': b'IDLE'})
                self._alpha.append({'s': si, 'name': 'DONE',
                                    'line': b'DONE'})
        # a delivery agent: a connection that never selects anything (its
        # message's \Recent is credited to somebody else's selection), and
        # the message arrives already \Deleted so that the next EXPUNGE by
        # anyone removes it before the others have seen it
        self.agent = nsess + (1 if observer else 0)
        self._alpha.append({'s': self.agent, 'name': 'DELIVER+Del',
                            'line': b'APPEND INBOX (\\Deleted) '
                                    + lit(msg(8))})

    def alphabet(self):
        return self._alpha

    # ---- world -----------------------------------------------------------
    def new(self):
        w = DictWorld(users={'alice': ('pw', ())})
        ctx = Ctx(w)
        n = self.nsess + (1 if self.observer else 0)
        for si in range(n + 1):            # the last one is the agent
            ctx.connect()
            st = ctx.do(si, b'LOGIN alice pw')
            assert st.cond == 'OK', st.raw
        for i in (1, 2, 3):
            fl = b'(\\Seen) ' if i == 2 else b''
            if self.predeleted and i in (1, 2):
                fl = b'(\\Deleted) ' if i == 1 else b'(\\Seen \\Deleted) '
            st = ctx.do(0, b'APPEND INBOX ' + fl + lit(msg(i)))
            assert st.cond == 'OK', st.raw
        st = ctx.do(0, b'CREATE Other')
        assert st.cond == 'OK', st.raw
        for si in range(n):
            if (self.observer and si == n - 1) or \
                    (self.ro_actor and si == 0):
                st = ctx.do(si, b'EXAMINE INBOX')
            else:
                st = ctx.do(si, b'SELECT INBOX')
            assert st.cond == 'OK', st.raw
            st = ctx.do(si, b'FETCH 1:* (UID FLAGS)')
            assert st.cond == 'OK', st.raw
        for sh in ctx.shadows:
            sh.take_problems()
        ctx.extra['idle'] = set()
        ctx.steps.clear()
        return ctx

    def enabled(self, ctx):
        out = []
        idle = ctx.extra['idle']
        for i, ev in enumerate(self._alpha):
            s = ctx.session(ev['s'])
            if s.done or s.conn.closed:
                continue
            if ev['s'] in idle:
                if ev['name'] == 'DONE':
                    out.append(i)
            elif ev['name'] != 'DONE':
                out.append(i)
        return out

    # ---- stepping --------------------------------------------------------
    def apply(self, ctx, i):
        ev = self._alpha[i]
        si = ev['s']
        idle = ctx.extra['idle']
        out = []
        if ev['name'] == 'DONE':
            if si not in ctx.open_steps:
                return out
            st = ctx.more(si, b'DONE\r\n')
            idle.discard(si)
            if st.cond != 'OK':
                out.append(Violation('idle-done', 'DONE',
                           f'DONE answered {st.cond}: {st.raw!r}'))
        elif ev['name'] == 'IDLE':
            st = ctx.do(si, b'IDLE')
            if st.tagged is None and any(r.kind == 'cont'
                                         for r in st.responses):
                # (pending updates may follow '+ Idling.' at once)
                idle.add(si)
            else:
                out.append(Violation('idle-start', 'IDLE',
                           f'IDLE not accepted: {st.raw!r}'))
        else:
            # the view the client holds when it sends the command
            ctx.extra['sent_view'] = [sl.uid for sl in ctx.shadows[si].slots]
            st = ctx.do(si, ev['line'])
            if st.tagged is None:
                out.append(Violation('no-tagged-response', ev['name'],
                           f'no completion: {st.raw[-100:]!r}'))
        for h in ctx.harness_errors:
            raise RuntimeError(h)
        if self.oracle == 'c01':
            out += self._c01_step(ctx, ev, st)
        else:
            for sh in ctx.shadows:
                sh.take_problems()
        return out

    def _c01_step(self, ctx, ev, st):
        out = []
        name = ev['name']
        for si, sh in enumerate(ctx.shadows):
            for rule, m in sh.take_problems():
                out.append(Violation('shadow.' + rule, name,
                           f'session {si} after s{ev["s"]}:{name}: {m}'))
        # server's own view of every session, after the tagged response
        for si, s in enumerate(ctx.world.sessions):
            sh = ctx.shadows[si]
            sel = s.state._selected if s.state is not None else None
            if sel is None or s.done:
                if sh.selected and not s.done and not sh.bye:
                    out.append(Violation('view.selected', name,
                               f'session {si}: client believes a mailbox is '
                               f'selected, server has none'))
                continue
            if si in ctx.extra['idle'] and si != ev['s']:
                # an idling session's pushes are C16's business; its view is
                # compared once it leaves IDLE
                continue
            srv = list(sel.messages._sorted)
            if sh.count != len(srv):
                out.append(Violation('view.count', name,
                           f'session {si} after s{ev["s"]}:{name}: client '
                           f'count {sh.count}, server {len(srv)} ({srv})'))
                continue
            for idx, slot in enumerate(sh.slots):
                if slot.uid is not None and slot.uid != srv[idx]:
                    out.append(Violation('view.uid-position', name,
                               f'session {si}: client has UID {slot.uid} at '
                               f'seq {idx + 1}, server {srv[idx]}'))
                    break
        # results of this command are labelled consistently
        si = ev['s']
        sh = ctx.shadows[si]
        if st is not None and st.cond == 'OK':
            srch = st.untagged('SEARCH')
            if srch and st.search_view is not None:
                cnt, uids = st.search_view     # client view when it arrived
                got = srch[0].data
                if name == 'SEARCHall' and got != list(range(1, cnt + 1)):
                    out.append(Violation('search.seqs', name,
                               f'SEARCH ALL returned {got}, client count '
                               f'{cnt}'))
                if name == 'UIDSEARCHall':
                    ok = len(got) == cnt and all(
                        u is None or u == g for u, g in zip(uids, got))
                    if not ok:
                        out.append(Violation('search.uids', name,
                                   f'UID SEARCH ALL returned {got}, client '
                                   f'view {uids}'))
            out += self._interpretation(ctx, ev, st)
        return out

    # sequence numbers in a command denote the messages of the view the
    # client held when it sent the command
    _SEQ_ADDRESSED = {
        'COPY1-INBOX': (1, 'copy'), 'COPY2-Other': (2, 'copy'),
        'MOVE1-Other': (1, 'copy'),
        'STORE1+Del': (1, (b'\\deleted', True)),
        'STORE2+Del.SILENT': (2, (b'\\deleted', True)),
        'STORE3Flagged': (3, (b'\\flagged', True)),
    }

    def _interpretation(self, ctx, ev, st):
        spec = self._SEQ_ADDRESSED.get(ev['name'])
        view = ctx.extra.get('sent_view')
        if spec is None or view is None:
            return []
        seq, what = spec
        if seq > len(view) or view[seq - 1] is None:
            return []
        uid = view[seq - 1]
        name = ev['name']
        out = []
        if what == 'copy':
            code = st.tagged.code_arg if st.tagged.code == b'COPYUID' \
                else None
            for r in st.responses:
                if r.kind == 'untagged' and r.code == b'COPYUID':
                    code = r.code_arg
            if code is not None:
                from ..refmodel.seqset import members
                src = sorted(members(code[1], 1 << 31))
                if src != [uid]:
                    out.append(Violation('interpret.copy-source', name,
                               f'session {ev["s"]}: {name} sent while the '
                               f'client held {view}; sequence number {seq} '
                               f'is UID {uid} but COPYUID names source '
                               f'{src}'))
        else:
            flag, _ = what
            mset = ctx.world.mailbox_set('alice')
            for u, m in mset._inbox._messages.items():
                has = flag in {bytes(f).lower() for f in m.permanent_flags}
                if u == uid and not has:
                    out.append(Violation('interpret.store-target', name,
                               f'session {ev["s"]}: {name} sent while the '
                               f'client held {view}; UID {uid} (sequence '
                               f'number {seq}) did not receive the flag'))
        return out

    # ---- keys --------------------------------------------------------------
    def key(self, ctx):
        return (dict_world_key(ctx.world, ctx.shadows),
                tuple(sorted(ctx.extra['idle'])))

    def outcome(self, ctx):
        return ctx.last.summary() if ctx.last else None

    # ---- C02 probe ---------------------------------------------------------
    def probe(self, ctx):
        if self.oracle != 'c02':
            return []
        out = []
        last = ctx.steps[-1] if ctx.steps else None
        lname = f"{last.verb}" if last else '-'
        for si in sorted(ctx.extra['idle']):
            if si in ctx.open_steps:
                ctx.more(si, b'DONE\r\n')
        ctx.extra['idle'].clear()
        mset = ctx.world.mailbox_set('alice')
        for si, s in enumerate(ctx.world.sessions):
            if s.done or s.state is None or s.state._selected is None:
                continue
            sel = s.state._selected
            st = ctx.do(si, self.probe_cmd)
            sh = ctx.shadows[si]
            sh.take_problems()
            if st.cond != 'OK' or sh.bye:
                out.append(Violation('c02.probe-failed', lname,
                           f'session {si}: {self.probe_cmd!r} -> {st.raw!r}'))
                continue
            try:
                import asyncio  # noqa
                mbx = mset._inbox if sel._lookup.upper() == 'INBOX' \
                    else mset._set[sel._lookup]
            except KeyError:
                continue
            stored = sorted(mbx._messages.items())
            if sh.count != len(stored):
                out.append(Violation('c02.count', lname,
                           f'session {si} after {self.probe_cmd.decode()}: '
                           f'client holds {sh.count} messages '
                           f'{sh.uids()}, mailbox has '
                           f'{[u for u, _ in stored]}'))
                continue
            for idx, (uid, m) in enumerate(stored):
                slot = sh.slots[idx]
                if slot.uid is not None and slot.uid != uid:
                    out.append(Violation('c02.uid', lname,
                               f'session {si}: seq {idx + 1} client UID '
                               f'{slot.uid}, stored {uid}'))
                    break
                if slot.flags is not None:
                    want = frozenset(bytes(f).lower()
                                     for f in m.permanent_flags)
                    got = slot.flags - {b'\\recent'}
                    if got != want:
                        out.append(Violation('c02.flags', lname,
                                   f'session {si}: UID {uid} client flags '
                                   f'{sorted(got)}, stored {sorted(want)}'))
                        break
        for h in ctx.harness_errors:
            raise RuntimeError(h)
        return out

    def close(self, ctx):
        ctx.close()

    def show_last(self, ctx):
        ctx.show_last()
