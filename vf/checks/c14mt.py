"""C14 on maildir under real concurrency (E7): a mover/copier/appender and a
second session touching the same messages, every schedule of their filesystem
calls up to a preemption bound; nothing may be lost or duplicated."""
from __future__ import annotations

from ..report import Violation
from . import mtmaildir as mt

# template store: INBOX = i1 i2 i3, a = a1 a2.  Both processes select INBOX.
SEL = lambda i: [b'SELECT INBOX']      # noqa: E731


def _multi(i):
    return [b'APPEND INBOX ' + mt.lit(mt.body('m%da' % i)) + b' ' +
            mt.lit(mt.body('m%db' % i))]


PROGRAMS = {
    # actor programs (process 0)
    'MOVE1': (SEL, lambda i: [b'MOVE 1 a']),
    'MOVE1:2': (SEL, lambda i: [b'MOVE 1:2 a']),
    'COPY1:2': (SEL, lambda i: [b'COPY 1:2 a']),
    'MULTIAPPEND': (SEL, _multi),
    'EXPUNGE1': (lambda i: [b'SELECT INBOX',
                            b'STORE 1 +FLAGS.SILENT (\\Deleted)'],
                 lambda i: [b'EXPUNGE']),
    # second-session programs (process 1); they touch message 1 too
    'STORE1': (SEL, lambda i: [b'STORE 1 +FLAGS (\\Flagged)']),
    'FETCH1': (SEL, lambda i: [b'FETCH 1 (BODY[])']),
    'MOVE1-too': (SEL, lambda i: [b'MOVE 1 a']),
    'COPY1': (SEL, lambda i: [b'COPY 1 a']),
    'SELECT': (lambda i: [], lambda i: [b'SELECT INBOX']),
    'NOOP': (SEL, lambda i: [b'NOOP']),
    'APPEND': (SEL, lambda i: [b'APPEND INBOX ' + mt.lit(mt.body('k%d' % i))]),
    'EXPUNGE3': (lambda i: [b'SELECT INBOX',
                            b'STORE 3 +FLAGS.SILENT (\\Deleted)'],
                 lambda i: [b'EXPUNGE']),
    'CHECK': (SEL, lambda i: [b'CHECK']),
    # the opposite direction (the two UID lists are locked in the other order)
    'MOVE-from-a': (lambda i: [b'SELECT a'], lambda i: [b'MOVE 1 INBOX']),
    'COPY-from-a': (lambda i: [b'SELECT a'], lambda i: [b'COPY 1 INBOX']),
}
ACTORS = ['MOVE1', 'MOVE1:2', 'COPY1:2', 'MULTIAPPEND', 'EXPUNGE1']
OTHERS = ['STORE1', 'FETCH1', 'MOVE1-too', 'COPY1', 'SELECT', 'NOOP', 'APPEND',
          'EXPUNGE3', 'CHECK', 'MOVE-from-a', 'COPY-from-a']
INITIAL = {'INBOX': ['i1', 'i2', 'i3'], 'a': ['a1', 'a2']}


def judge(layout, names, deliver, ex, info):
    site = f'{layout}:threads:{names[0]}||{names[1]}'
    out = []
    sched = mt.explain(ex)

    def v(rule, msg):
        out.append(Violation(rule, site, f'{msg}; schedule: {sched}'))
    if info['stuck']:
        v('no-completion', f'process(es) {info["stuck"]} never answered')
    fin = info['final']
    if any(e is None for e in fin.values()):
        v('mailbox-unreadable', f'{fin}')
        return out
    inbox = [t for _, t in fin['INBOX'][2]]
    box_a = [t for _, t in fin['a'][2]]
    allt = inbox + box_a
    conds = [[r.name for _, r, _ in res] for res in info['results']]
    ok = [c and c[-1] == 'OK' for c in conds]
    # what may legitimately be gone: messages expunged by an EXPUNGE program
    # (flagged \Deleted by that session beforehand)
    may_vanish = set()
    if 'EXPUNGE1' in names:
        may_vanish.add('i1')
    if 'EXPUNGE3' in names:
        may_vanish.add('i3')
    for t in INITIAL['INBOX'] + INITIAL['a']:
        n = allt.count(t)
        if n == 0 and t not in may_vanish:
            v('message-lost', f'{t} is in neither mailbox: INBOX {inbox}, '
              f'a {box_a} (answers {conds})')
    # moved messages: exactly once overall, and in the destination after OK
    movers = [i for i, n in enumerate(names) if n.startswith('MOVE1')]
    copiers = [n for n in names if n.startswith('COPY')]
    moved = {'MOVE1': ['i1'], 'MOVE1:2': ['i1', 'i2'], 'MOVE1-too': ['i1']}
    for t in ('i1', 'i2', 'i3'):
        n = allt.count(t)
        copies = sum(1 for c in copiers
                     if t in {'COPY1:2': ['i1', 'i2'],
                              'COPY1': ['i1']}.get(c, []))
        if n > 1 + copies:
            v('message-duplicated', f'{t} exists {n} times (copies asked '
              f'for: {copies}): INBOX {inbox}, a {box_a} (answers {conds})')
    # (when the other session renames the very file being moved -- a flag
    # change -- pymap skips the message as "already gone"; it stays in the
    # source, which the property allows: exactly one of the two mailboxes)
    touching = {'STORE1', 'FETCH1', 'COPY1', 'MOVE1-too'}
    for i in movers:
        if ok[i] and len(movers) == 1 and not copiers \
                and not (set(names) & touching):
            for t in moved[names[i]]:
                if t in inbox and t not in may_vanish:
                    v('move-incomplete', f'MOVE answered OK but {t} is still '
                      f'in INBOX {inbox} (a {box_a})')
    # all-or-nothing multi-APPEND
    for i, n in enumerate(names):
        if n == 'MULTIAPPEND':
            have = [t for t in ('m%da' % i, 'm%db' % i) if t in inbox]
            if ok[i] and len(have) != 2:
                v('append-incomplete', f'APPEND OK but only {have} stored')
            if not ok[i] and have:
                v('multiappend-partial', f'APPEND answered {conds[i]} but '
                  f'{have} are stored')
        if n == 'APPEND' and ok[i] and inbox.count('k%d' % i) != 1:
            v('append-incomplete', f'APPEND OK but k{i} stored '
              f'{inbox.count("k%d" % i)} times')
    # the opposite-direction mover
    for i, n in enumerate(names):
        if n == 'MOVE-from-a':
            if ok[i] and 'a1' in box_a:
                v('move-incomplete', f'MOVE from a answered OK but a1 is '
                  f'still there: a {box_a}, INBOX {inbox}')
            if conds[i] and conds[i][-1] in ('NO', 'BAD') and \
                    'a1' not in box_a:
                v('refused-but-changed', f'MOVE 1 INBOX (from a) answered '
                  f'{conds[i][-1]} but a1 left a: a {box_a}, INBOX {inbox}')
            if allt.count('a1') > 1:
                v('message-duplicated', f'a1 exists {allt.count("a1")} times')
    # a command that ends in NO or BAD leaves the contents unchanged
    for i, n in enumerate(names):
        if conds[i] and conds[i][-1] in ('NO', 'BAD') and \
                n in ('MOVE1', 'MOVE1:2', 'MOVE1-too') and len(movers) == 1:
            for t in moved[n]:
                if t not in inbox and t not in may_vanish and \
                        'MOVE1-too' not in names:
                    v('refused-but-changed', f'{n} answered '
                      f'{conds[i][-1]} but {t} left INBOX')
    return out


def task(args):
    layout, names, bound, cap = args[:4]
    bonus = args[4] if len(args) > 4 else 0
    prefixes = args[5] if len(args) > 5 else None
    return mt.explore_pair(layout, names, PROGRAMS, judge, bound, cap=cap,
                           tag='mt14', lock_bonus=bonus, prefixes=prefixes)


def tasks(tier):
    T = []
    for a in ACTORS:
        for b in OTHERS:
            T.append(('++', (a, b), 1, None))
    # movers in opposite directions lock the two UID lists in opposite
    # order: one arbitrary preemption plus one at a lock-file operation
    # (the schedules below the first-level deviations are spread over the
    # workers; the root itself is covered by the bound-1 task above)
    for pr in ((('MOVE1', 'MOVE-from-a'),) if tier == 'quick' else
               (('MOVE1', 'MOVE-from-a'), ('MOVE1:2', 'MOVE-from-a'))):
        for chunk in mt.split_prefixes('++', pr, PROGRAMS, 1, 1):
            T.append(('++', pr, 1, None, 1, chunk))
    if tier != 'quick':
        for a in ACTORS:
            for b in OTHERS:
                T.append(('fs', (a, b), 1, None))
        for a in ('MOVE1', 'COPY1:2', 'MULTIAPPEND'):
            for b in ('STORE1', 'FETCH1', 'MOVE1-too', 'SELECT', 'EXPUNGE3'):
                for ch in mt.split_prefixes('++', (a, b), PROGRAMS, 2, 0):
                    T.append(('++', (a, b), 2, None, 0, ch))
    return T
