"""C13 -- SEARCH returns exactly the matching messages.

Bounded-exhaustive enumeration of search programs (all atoms, NOT a, all
ordered pairs as conjunction / OR / parenthesised / negated, plus selected
depth-2 shapes) against an independent evaluator, on a plain view and on a
view with a hidden (not yet reported) expunge; SEARCH and UID SEARCH."""
from __future__ import annotations

import multiprocessing as mp
import os
import time
from datetime import date

from ..driver import Ctx
from ..explore import _digest
from ..refmodel import seqset
from ..report import Violation, finish
from ..worlds import DictWorld

PROP = 'C13'


def lit(b):
    return b'{%d+}\r\n%s' % (len(b), b)


MSGS = [
    dict(raw=b'From: Alice <alice@example.com>\r\nTo: Bob <bob@example.com>\r\n'
             b'Subject: hello world\r\nDate: Tue, 10 Mar 2020 12:00:00 +0000\r\n'
             b'X-Tag: v1\r\n\r\nfirst needle here\r\n',
         flags=[b'\\Seen', b'\\Answered'], idate=b'"10-Mar-2020 12:00:00 +0000"',
         d=date(2020, 3, 10), sent=date(2020, 3, 10)),
    dict(raw=b'From: carol@example.com\r\nTo: alice@example.com\r\n'
             b'Cc: Carol <carol@example.com>\r\nSubject: subjword only\r\n'
             b'Date: Wed, 11 Mar 2020 23:30:00 -0500\r\n\r\nnothing\r\n',
         flags=[b'\\Flagged', b'kw'], idate=b'"11-Mar-2020 23:30:00 -0500"',
         d=date(2020, 3, 11), sent=date(2020, 3, 11)),
    dict(raw=b'From: Dave <dave@example.org>\r\nBcc: dave@example.com\r\n'
             b'X-Tag: \r\n\r\nNEEDLE uppercase\r\n',
         flags=[b'\\Deleted', b'\\Draft'], idate=b'"12-Mar-2020 00:30:00 +0900"',
         d=date(2020, 3, 12), sent=None),
    dict(raw=b'From: alice@example.com\r\nSubject: HELLO again\r\n'
             b'Date: Thu, 12 Mar 2020 08:00:00 +0000\r\n\r\n'
             + b'long body line with needle\r\n' * 4,
         flags=[], idate=b'"12-Mar-2020 08:00:00 +0000"',
         d=date(2020, 3, 12), sent=date(2020, 3, 12)),
    dict(raw=b'Subject: x\r\n\r\n', flags=[b'\\Seen'], idate=None,
         d=date(2023, 11, 14), sent=None),
]


def _mp(boundary, *parts, sub=b'mixed', extra=b''):
    """A multipart entity (headers + body) from complete sub-entities."""
    out = b'Content-Type: multipart/' + sub + b'; boundary="' + boundary + \
        b'"\r\n' + extra + b'\r\n'
    for part in parts:
        out += b'--' + boundary + b'\r\n' + part + b'\r\n'
    return out + b'--' + boundary + b'--\r\n'


def _txt(body, sub=b'plain', extra=b''):
    return b'Content-Type: text/' + sub + b'\r\n' + extra + b'\r\n' + body


# structured messages: each token sits in a part header or in a 7bit text
# part, at nesting depth 0..3 or inside an attached message
_EMB = b'Subject: embsubj\r\nFrom: emb@example.com\r\nMIME-Version: 1.0\r\n' + \
    _mp(b'bEE', _txt(b'tokemb inside\r\n'))
MIME_MSGS = [
    dict(raw=b'Subject: m1\r\nMIME-Version: 1.0\r\n' + _mp(
        b'bAA', _txt(b'tokdone here\r\n'),
        _mp(b'bAB', _txt(b'tokdtwo plain\r\n'),
            _txt(b'<b>tokhtml</b>\r\n', b'html'), sub=b'alternative')),
         flags=[], idate=None, d=date(2023, 11, 14), sent=None),
    dict(raw=b'Subject: m2\r\nMIME-Version: 1.0\r\n' + _mp(
        b'bBA', _mp(b'bBB', _mp(
            b'bBC', _txt(b'tokdthree deep\r\n', extra=b'X-Part: hdrdthree\r\n'),
            sub=b'alternative'), sub=b'related')),
         flags=[], idate=None, d=date(2023, 11, 14), sent=None),
    dict(raw=b'Subject: m3\r\nMIME-Version: 1.0\r\n' + _mp(
        b'bCA', _txt(b'cover note\r\n'),
        b'Content-Type: message/rfc822\r\n\r\n' + _EMB),
         flags=[], idate=None, d=date(2023, 11, 14), sent=None),
    dict(raw=b'Subject: m4\r\n\r\ntokflat TOKDTWO\r\n',
         flags=[], idate=None, d=date(2023, 11, 14), sent=None),
]
MIME_TOKENS = [b'tokdone', b'tokdtwo', b'tokhtml', b'tokdthree', b'hdrdthree',
               b'embsubj', b'tokemb', b'tokflat', b'cover', b'absent', b'm2']


def mime_programs():
    A = [('body', k, t) for t in MIME_TOKENS for k in (b'TEXT', b'BODY')]
    A += [('subj', b'SUBJECT', b'm3'), ('seq', b'2:3')]
    P = []
    for a in A:
        P += [a, ('not', a)]
    for i, a in enumerate(A):
        for j, b in enumerate(A):
            if i != j:
                P += [('and', a, b), ('or', a, b), ('not', ('or', a, b))]
    return P


N_OLD = 3      # messages 1..3 are claimed by an earlier session: not \Recent


def headers_of(raw: bytes):
    head, _, body = raw.partition(b'\r\n\r\n')
    hs = []
    for ln in head.split(b'\r\n'):
        k, _, v = ln.partition(b':')
        hs.append((k.strip().lower(), v.strip()))
    return hs, body


class RMsg:
    def __init__(self, uid, spec, recent) -> None:
        self.uid = uid
        self.raw = spec['raw']
        self.flags = {f.lower() for f in spec['flags']}
        if recent:
            self.flags.add(b'\\recent')
        self.d = spec['d']
        self.sent = spec['sent']
        self.headers, self.body = headers_of(self.raw)
        self.size = len(self.raw)

    def hdr(self, name: bytes):
        return [v for k, v in self.headers if k == name.lower()]


def icontains(hay: bytes, needle: bytes) -> bool:
    return needle.lower() in hay.lower()


D10, D11, D12, D13 = (b'10-Mar-2020', b'11-Mar-2020', b'12-Mar-2020',
                      b'13-Mar-2020')
DATES = {D10: date(2020, 3, 10), D11: date(2020, 3, 11),
         D12: date(2020, 3, 12), D13: date(2020, 3, 13)}
SZ = len(MSGS[1]['raw'])


def atoms():
    A = []
    for k in ('ALL', 'ANSWERED', 'UNANSWERED', 'DELETED', 'UNDELETED', 'DRAFT',
              'UNDRAFT', 'FLAGGED', 'UNFLAGGED', 'SEEN', 'UNSEEN', 'RECENT',
              'OLD', 'NEW'):
        A.append(('flag', k.encode()))
    A += [('kw', b'KEYWORD', b'kw'), ('kw', b'UNKEYWORD', b'kw'),
          ('kw', b'KEYWORD', b'nokw')]
    for k in (b'BEFORE', b'ON', b'SINCE'):
        for d in (D10, D11, D12, D13):
            A.append(('date', k, d))
    for k in (b'SENTBEFORE', b'SENTON', b'SENTSINCE'):
        for d in (D11, D12):
            A.append(('date', k, d))
    for k in (b'SMALLER', b'LARGER'):
        for n in (SZ - 1, SZ, SZ + 1, 0):
            A.append(('size', k, n))
    A += [('addr', b'FROM', b'alice'), ('addr', b'FROM', b'ALICE'),
          ('addr', b'FROM', b'example.org'), ('addr', b'TO', b'bob'),
          ('addr', b'TO', b'alice'), ('addr', b'CC', b'carol'),
          ('addr', b'BCC', b'dave'), ('addr', b'FROM', b'nobody'),
          ('subj', b'SUBJECT', b'hello'), ('subj', b'SUBJECT', b'WORLD'),
          ('subj', b'SUBJECT', b'x'),
          ('hdr', b'X-Tag', b'v1'), ('hdr', b'X-Tag', b''),
          ('hdr', b'x-tag', b'V1'), ('hdr', b'X-None', b''),
          ('hdr', b'Subject', b'again'),
          ('body', b'BODY', b'needle'), ('body', b'BODY', b'subjword'),
          ('body', b'BODY', b'alice'), ('body', b'TEXT', b'needle'),
          ('body', b'TEXT', b'subjword'), ('body', b'TEXT', b'nowhere'),
          ('body', b'TEXT', b'X-Tag')]
    for s in (b'1', b'2:1', b'*', b'1:*', b'9', b'2,4', b'4:*'):
        A.append(('seq', s))
    # (2,4 and 2:1 also as UID sets: same text as a sequence-number atom,
    # different meaning -- UIDs start at 101 here)
    for s in (b'101', b'102:103', b'999', b'102', b'104:*', b'2,4', b'2:1'):
        A.append(('uid', s))
    return A


def render(p) -> bytes:
    t = p[0]
    if t == 'flag':
        return p[1]
    if t == 'kw':
        return p[1] + b' ' + p[2]
    if t == 'date':
        return p[1] + b' ' + p[2]
    if t == 'size':
        return p[1] + b' %d' % p[2]
    if t in ('addr', 'subj', 'body'):
        return p[1] + b' "' + p[2] + b'"'
    if t == 'hdr':
        return b'HEADER ' + p[1] + b' "' + p[2] + b'"'
    if t == 'seq':
        return p[1]
    if t == 'uid':
        return b'UID ' + p[1]
    if t == 'not':
        return b'NOT ' + render(p[1])
    if t == 'and':
        return b' '.join(render(x) for x in p[1:])
    if t == 'par':
        return b'(' + b' '.join(render(x) for x in p[1:]) + b')'
    if t == 'or':
        return b'OR ' + render(p[1]) + b' ' + render(p[2])
    raise AssertionError(p)


def ev(p, m: RMsg, seq: int, view) -> bool:
    t = p[0]
    if t == 'flag':
        k = p[1]
        fl = m.flags
        if k == b'ALL':
            return True
        if k == b'RECENT':
            return b'\\recent' in fl
        if k == b'OLD':
            return b'\\recent' not in fl
        if k == b'NEW':
            return b'\\recent' in fl and b'\\seen' not in fl
        neg = k.startswith(b'UN')
        name = b'\\' + (k[2:] if neg else k).lower()
        return (name in fl) != neg
    if t == 'kw':
        return (p[2].lower() in m.flags) == (p[1] == b'KEYWORD')
    if t == 'date':
        k, d = p[1], DATES[p[2]]
        have = m.sent if k.startswith(b'SENT') else m.d
        if have is None:
            return False
        k = k[4:] if k.startswith(b'SENT') else k
        return (have < d) if k == b'BEFORE' else (have == d) if k == b'ON' \
            else (have >= d)
    if t == 'size':
        return m.size < p[2] if p[1] == b'SMALLER' else m.size > p[2]
    if t == 'addr':
        return any(icontains(v, p[2]) for v in m.hdr(p[1]))
    if t == 'subj':
        return any(icontains(v, p[2]) for v in m.hdr(b'subject'))
    if t == 'hdr':
        return any(icontains(v, p[2]) for v in m.hdr(p[1]))
    if t == 'body':
        if p[1] == b'BODY':
            return icontains(m.body, p[2])
        return icontains(m.raw, p[2])
    if t == 'seq':
        return seq in seqset.members(p[1], len(view))
    if t == 'uid':
        return m.uid in seqset.members(p[1], max(x.uid for x in view))
    if t == 'not':
        return not ev(p[1], m, seq, view)
    if t in ('and', 'par'):
        return all(ev(x, m, seq, view) for x in p[1:])
    if t == 'or':
        return ev(p[1], m, seq, view) or ev(p[2], m, seq, view)
    raise AssertionError(p)


def programs(tier):
    A = atoms()
    P = []
    for a in A:
        P.append(a)
        P.append(('not', a))
        P.append(('not', ('not', a)))
        P.append(('par', a))
    full = tier != 'quick'
    for i, a in enumerate(A):
        for j, b in enumerate(A):
            if i == j:
                continue
            P.append(('and', a, b))
            P.append(('or', a, b))
            P.append(('not', ('par', a, b)))
            P.append(('not', ('or', a, b)))
            P.append(('and', ('not', a), ('not', b)))
            P.append(('par', a, b))
            if full:
                for k in range(4):
                    c = A[(i + j + 17 * k) % len(A)]
                    e = A[(i * 7 + j + 29 * k) % len(A)]
                    P.append(('or', a, ('par', b, c)))
                    P.append(('and', ('or', a, b), e))
                    P.append(('not', ('par', ('or', a, c), b)))
    return P


def build(hidden):
    w = DictWorld(users={'alice': ('pw', ())})
    ctx = Ctx(w)
    for _ in range(3):
        si = ctx.connect()
        assert ctx.do(si, b'LOGIN alice pw').cond == 'OK'
    if hidden == 'mime':
        for spec in MIME_MSGS:
            st = ctx.do(2, b'APPEND INBOX ' + lit(spec['raw']))
            assert st.cond == 'OK', st.raw
        assert ctx.do(0, b'SELECT INBOX').cond == 'OK'
        return ctx, [RMsg(101 + k, spec, True)
                     for k, spec in enumerate(MIME_MSGS)]
    for k, spec in enumerate(MSGS):
        if k == N_OLD:
            # an earlier read-write session claims \Recent of the first ones
            # (switching mailboxes does not expunge, unlike CLOSE)
            assert ctx.do(2, b'CREATE Other').cond == 'OK'
            assert ctx.do(2, b'SELECT INBOX').cond == 'OK'
            assert ctx.do(2, b'SELECT Other').cond == 'OK'
        line = b'APPEND INBOX (' + b' '.join(spec['flags']) + b')'
        if spec['idate']:
            line += b' ' + spec['idate']
        st = ctx.do(2, line + b' ' + lit(spec['raw']))
        assert st.cond == 'OK', st.raw
    assert ctx.do(0, b'SELECT INBOX').cond == 'OK'
    st = ctx.do(0, b'FETCH 1:* (UID FLAGS)')
    assert st.cond == 'OK' and len(st.untagged('FETCH')) == len(MSGS), st.raw
    view = [RMsg(101 + k, spec, k >= N_OLD) for k, spec in enumerate(MSGS)]
    if hidden:
        assert ctx.do(1, b'SELECT INBOX').cond == 'OK'
        assert ctx.do(1, b'STORE 2 +FLAGS (\\Deleted)').cond == 'OK'
        assert ctx.do(1, b'EXPUNGE').cond == 'OK'
        # flags are those of the stored message when it was expunged
        view[1].flags.add(b'\\deleted')
    return ctx, view


_PROGS = None
_MPROGS = None


def _work(args):
    hidden, lo, hi = args
    out = []
    evals = 0
    distinct = set()
    ctx, view = build(hidden)
    progs = _MPROGS if hidden == 'mime' else _PROGS
    try:
        for pi in range(lo, hi):
            p = progs[pi]
            txt = render(p)
            st = ctx.do(0, b'SEARCH ' + txt)
            evals += 1
            for h in ctx.harness_errors:
                raise RuntimeError(h)
            site = f'{hidden if hidden == "mime" else "hidden" if hidden else "plain"}:{shape(p)}'
            if st.cond != 'OK':
                out.append(Violation('search.refused', site,
                           f'SEARCH {txt.decode()} -> {st.raw!r}'))
                continue
            got = st.untagged('SEARCH')
            got = list(got[0].data) if got else []
            if st.untagged('EXPUNGE'):
                out.append(Violation('search.expunge-during', site,
                           f'EXPUNGE sent while answering SEARCH {txt!r}'))
            want = [s for s, m in enumerate(view, 1) if ev(p, m, s, view)]
            ok = sorted(got) == want
            # (no tolerance for hidden-expunged messages: the property speaks
            # of the session's current view, which still contains them)
            distinct.add(tuple(want))
            if not ok:
                out.append(Violation('search.result', site,
                           f'SEARCH {txt.decode()} returned {got}, evaluator '
                           f'says {want}',
                           replay={'hidden': hidden, 'program': txt}))
            # UID SEARCH must correspond through the view's seq->UID map
            if hidden is not True or _digest(txt)[0] < 8:
                st2 = ctx.do(0, b'UID SEARCH ' + txt)
                evals += 1
                g2 = st2.untagged('SEARCH')
                g2 = list(g2[0].data) if g2 else []
                w2 = [view[s - 1].uid for s in want]
                ok2 = sorted(g2) == w2
                if hidden is True:
                    # the UID command revealed the expunge: rebuild the view
                    ctx.close()
                    ctx, view = build(hidden)
                if st2.cond != 'OK' or not ok2:
                    out.append(Violation('search.uid-result', site,
                               f'UID SEARCH {txt.decode()} returned {g2}, '
                               f'evaluator says {w2} (SEARCH gave {got})',
                               replay={'hidden': hidden, 'program': txt,
                                       'uid': True}))
    finally:
        ctx.close()
    return out, evals, len(distinct)


def shape(p) -> str:
    t = p[0]
    if t in ('not',):
        return 'NOT ' + shape(p[1])
    if t == 'and':
        return ' '.join(shape(x) for x in p[1:])
    if t == 'par':
        return '(' + ' '.join(shape(x) for x in p[1:]) + ')'
    if t == 'or':
        return 'OR ' + shape(p[1]) + ' ' + shape(p[2])
    if t in ('flag',):
        return p[1].decode()
    if t in ('kw', 'date', 'size', 'addr', 'subj', 'body'):
        return p[1].decode()
    if t == 'hdr':
        return 'HEADER'
    return t.upper()


def run(*, tier, seed, jobs, progress, opts):
    global _PROGS, _MPROGS
    t0 = time.perf_counter()
    _PROGS = programs(tier)
    _MPROGS = mime_programs()
    n = len(_PROGS)
    njobs = jobs or min(16, os.cpu_count() or 1)
    chunk = max(50, n // (njobs * 4))
    tasks = []
    for hidden in (False, True):
        for lo in range(0, n, chunk):
            tasks.append((hidden, lo, min(n, lo + chunk)))
    for lo in range(0, len(_MPROGS), 200):
        tasks.append(('mime', lo, min(len(_MPROGS), lo + 200)))
    violations = []
    evals = 0
    dmax = 0
    with mp.get_context('fork').Pool(njobs) as pool:
        for vs, ev_, dist in pool.imap_unordered(_work, tasks):
            violations += vs
            evals += ev_
            dmax = max(dmax, dist)
    cov = {
        'evaluations': evals,
        'distinct_nontrivial': len({render(p) for p in _PROGS}),
        'programs': n, 'atoms': len(atoms()),
        'mime_programs': len(_MPROGS),
        'views': ['plain (5 messages)',
                  'hidden-expunged (another session expunged messages 2 and 3, the '
                  'searching session has not been told)',
                  'mime (4 structured messages: tokens in text parts and part '
                  'headers at nesting depth 0..3 and in an attached message; '
                  'TEXT/BODY atoms, their negations and all ordered pairs)'],
        'distinct_expected_result_sets_max_per_chunk': dmax,
        'rule': ('every atom a, NOT a, NOT NOT a, (a); for ordered pairs '
                 '(all ordered pairs): a b, '
                 'OR a b, NOT (a b), NOT OR a b, NOT a NOT b, (a b) [+ three '
                 'depth-2 shapes x 4 third atoms in thorough]; each as SEARCH and UID SEARCH; '
                 'distinct = distinct program texts'),
        'samples': [render(p).decode() for p in _PROGS[::max(1, n // 12)]],
        'exhaustive': True,
    }
    return finish(PROP, tier=tier, seed=seed, level='exploration',
                  coverage=cov, violations=violations, t0=t0, assumptions=[
                      'dict backend; US-ASCII messages; substring matching '
                      'on raw header values / body bytes, case-insensitive',
                      'hidden-expunged messages (two of them in the second '
                      'view) are part of the view and must be evaluated like '
                      'any other'])


def replay(rec):
    r = rec['replay']
    ctx, view = build(r['hidden'])
    txt = r['program']
    if isinstance(txt, str):
        txt = txt.encode()
    ctx.do(0, (b'UID ' if r.get('uid') else b'') + b'SEARCH ' + txt)
    ctx.show_last()
    ctx.close()
    return 0
