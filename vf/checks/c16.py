"""C16 -- IDLE delivers every change without further stimulus.

Deviation-bounded stateless exploration (E5 deviation mode) on the dict
backend: idling sessions and writers issuing bursts; the environment decides
at every loop-iteration boundary whether the next client chunk arrives now
(although handles are still ready), whether an idler's drain is gated, and in
which order quiescent-time deliveries happen.  All executions with <= bound
deviations are enumerated; each runs to quiescence."""
from __future__ import annotations

import itertools
import multiprocessing as mp
import os
import time

from ..driver import Ctx, apply_silent_store  # noqa: F401
from ..loop import StepBudgetExceeded
from ..report import Violation, finish
from ..worlds import DictWorld
from .seqmodel import lit, msg

PROP = 'C16'

CMDS = {
    'A': [b'APPEND INBOX ' + lit(msg(7))],
    'F': [b'STORE 1 +FLAGS (\\Flagged)'],
    'X': [b'STORE 1 +FLAGS (\\Deleted)', b'EXPUNGE'],
    'S': [b'STORE 2 +FLAGS.SILENT (\\Seen)'],
    'M': [b'MOVE 2 Other'],
    # replace with the empty list: clears every flag of message 3 (which
    # starts out \\Answered); a change although no flag is named
    'R': [b'STORE 3 FLAGS ()'],
    'K': [b'STORE 3 FLAGS (\\Recent)'],
}


class Scenario:
    def __init__(self, idlers, bursts, done=b'DONE\r\n', pre='',
                 hist='') -> None:
        # earlier IDLEs of the idling connection itself: D = ended by DONE,
        # B = ended by another line (answered BAD)
        self.hist = hist
        self.idlers = idlers
        self.bursts = tuple(bursts)  # one string of command letters per writer
        self.done = done if isinstance(done, bytes) else done.encode()
        self.pre = pre              # changes made just before IDLE is entered

    def name(self):
        return f'{self.idlers}i/' + '+'.join(self.bursts) + \
            (f'/pre={self.pre}' if self.pre else '') + \
            (f'/hist={self.hist}' if self.hist else '') + \
            ('' if self.done.upper() == b'DONE\r\n' else '/notdone')


class Exec:
    def __init__(self, sc: Scenario) -> None:
        w = DictWorld(users={'alice': ('pw', ())})
        self.ctx = ctx = Ctx(w)
        self.sc = sc
        n = sc.idlers + len(sc.bursts)
        for si in range(n):
            ctx.connect()
            assert ctx.do(si, b'LOGIN alice pw').cond == 'OK'
        assert ctx.do(0, b'CREATE Other').cond == 'OK'
        for i in (1, 2, 3):
            fl = b'(\\Answered) ' if i == 3 else b''
            assert ctx.do(0, b'APPEND INBOX ' + fl + lit(msg(i))).cond == 'OK'
        for si in range(n):
            assert ctx.do(si, b'SELECT INBOX').cond == 'OK'
            assert ctx.do(si, b'FETCH 1:* (UID FLAGS)').cond == 'OK'
        self.idlers = list(range(sc.idlers))
        self.writers = list(range(sc.idlers, n))
        for letter in sc.pre:
            for line in CMDS[letter]:
                assert ctx.do(self.writers[0], line).cond == 'OK'
        for si in self.idlers:
            for ch in sc.hist:
                st = ctx.do(si, b'IDLE')
                assert st.tagged is None, st.raw
                st = ctx.more(si, b'DONE\r\n' if ch == 'D' else b'x1 NOOP\r\n')
                assert st.cond == ('OK' if ch == 'D' else 'BAD'), st.raw
        for si in self.idlers:
            st = ctx.do(si, b'IDLE')
            assert st.tagged is None and any(
                r.kind == 'cont' for r in st.responses), st.raw
            ctx.open_steps[si] = st
        # pending client chunks per writer (tagged lines)
        self.pending = {}
        for wi, burst in zip(self.writers, sc.bursts):
            lines = []
            for k, letter in enumerate(burst):
                for j, line in enumerate(CMDS[letter]):
                    lines.append(b'w%d%d%d ' % (wi, k, j) + line + b'\r\n')
            self.pending[wi] = lines
        # the idlers' DONE is an external event too: by default it arrives
        # last, when everything is quiescent; delivering it earlier is a
        # deviation
        self.done_pending = {si: True for si in self.idlers}
        self.sent_tags = {wi: [] for wi in self.writers}
        self.gated = set()
        self.gate_used = False
        self.points = []            # (n_options, labels)
        self.choices = []
        self.iterations = 0

    # ---- environment options at a boundary --------------------------------
    def options(self):
        loop = self.ctx.world.loop
        opts = []
        ready = loop.has_ready
        writers = [wi for wi in self.writers if self.pending[wi]]
        blocked = [si for si in self.gated
                   if self.ctx.session(si).conn.drain_blocked]
        dones = [si for si in self.idlers if self.done_pending[si]]
        if ready:
            opts.append(('step', None))
            for wi in writers:
                opts.append(('feed', wi))
            for si in dones:
                opts.append(('done', si))
            if not self.gate_used:
                for si in self.idlers:
                    opts.append(('gate', si))
            for si in blocked:
                opts.append(('release', si))
        else:
            # quiescent: deliver the next chunk (default: lowest writer), or
            # release a blocked drain
            for si in blocked:
                opts.append(('release', si))
            for wi in writers:
                opts.append(('feed', wi))
            if writers:
                # DONE before the writers are through: a deviation; when no
                # writer chunk is left the horizon check runs first and DONE
                # is sent by check()
                for si in dones:
                    opts.append(('done', si))
            if opts and not self.gate_used and writers:
                for si in self.idlers:
                    opts.append(('gate', si))
        return opts

    def do(self, opt):
        kind, who = opt
        ctx = self.ctx
        loop = ctx.world.loop
        if kind == 'feed':
            line = self.pending[who].pop(0)
            ctx.session(who).conn.feed(line)
        elif kind == 'done':
            self.done_pending[who] = False
            ctx.session(who).conn.feed(self.sc.done)
        elif kind == 'gate':
            ctx.session(who).conn.gate_drain()
            self.gated.add(who)
            self.gate_used = True
        elif kind == 'release':
            ctx.session(who).conn.release_drain()
            self.gated.discard(who)
        if loop.has_ready:
            loop.step()
            self.iterations += 1

    def run(self, prefix):
        """Replay ``prefix`` (choice indices), then defaults, to quiescence."""
        k = 0
        budget = 4000
        while True:
            opts = self.options()
            if not opts:
                break
            if len(opts) > 1:
                if k < len(prefix):
                    c = prefix[k]
                    if c >= len(opts):
                        raise RuntimeError('replay divergence: choice out of '
                                           'range')
                else:
                    c = 0
                self.points.append([o for o in opts])
                self.choices.append(c)
                k += 1
            else:
                c = 0
            self.do(opts[c])
            budget -= 1
            if budget <= 0:
                raise StepBudgetExceeded('no quiescence within 4000 '
                                         'boundaries')
        if k < len(prefix):
            raise RuntimeError('replay divergence: prefix longer than run')

    # ---- oracle ------------------------------------------------------------
    def check(self):
        out = []
        ctx = self.ctx
        sc = self.sc
        site = sc.name()
        for si in self.idlers:
            st0 = ctx.open_steps.get(si)
            if st0 is not None:
                s = ctx.session(si)
                data, rs = s.pull()
                ctx._absorb(si, st0, data, rs)
                if st0.tagged is not None:
                    ctx.shadows[si].end(st0.tagged)
                    del ctx.open_steps[si]
        ctx.pull_all()
        for w in self.writers:
            s = ctx.session(w)
            for r in s.responses:
                pass
        mset = ctx.world.mailbox_set('alice')
        stored = sorted(mset._inbox._messages.items())
        for si in self.idlers:
            sh = ctx.shadows[si]
            if not self.done_pending[si]:
                # this session left IDLE early: absorb the completion, then a
                # NOOP is the legitimate stimulus outside IDLE
                st0 = ctx.open_steps.get(si)
                if st0 is not None:
                    s = ctx.session(si)
                    data, rs = s.pull()
                    ctx._absorb(si, st0, data, rs)
                    if st0.tagged is not None:
                        sh.end(st0.tagged)
                        del ctx.open_steps[si]
                if si in ctx.open_steps:
                    out.append(Violation('idle.done', site,
                               f'idler {si}: no completion after early DONE'))
                    continue
                ctx.do(si, b'NOOP')
            for rule, m in sh.take_problems():
                out.append(Violation('shadow.' + rule, site,
                           f'idler {si}: {m}'))
            if sh.count != len(stored):
                out.append(Violation(
                    'idle.not-delivered', site,
                    f'idler {si} holds {sh.count} messages '
                    f'{sh.uids()}, mailbox has {[u for u, _ in stored]} and '
                    f'nothing is runnable any more (no further stimulus)'))
                continue
            for idx, (uid, m) in enumerate(stored):
                slot = sh.slots[idx]
                if slot.uid is not None and slot.uid != uid:
                    out.append(Violation('idle.uid', site,
                               f'idler {si}: seq {idx + 1} is UID {slot.uid}, '
                               f'stored {uid}'))
                    break
                if slot.flags is not None:
                    want = frozenset(bytes(f).lower()
                                     for f in m.permanent_flags)
                    if slot.flags - {b'\\recent'} != want:
                        out.append(Violation(
                            'idle.flags-not-delivered', site,
                            f'idler {si}: UID {uid} flags '
                            f'{sorted(slot.flags)}, stored {sorted(want)}'))
                        break
        # writers must all have completed
        for wi in self.writers:
            s = ctx.session(wi)
            tagged = [r for r in s.responses if r.kind == 'tagged'
                      and r.tag.startswith(b'w')]
            expect = sum(len(CMDS[c]) for c in sc.bursts[wi - sc.idlers])
            if len(tagged) != expect:
                out.append(Violation('writer-incomplete', site,
                           f'writer {wi}: {len(tagged)} of {expect} commands '
                           f'completed'))
        # DONE ends IDLE with the tagged OK; anything else with BAD
        for si in self.idlers:
            if not self.done_pending[si]:
                continue
            st = ctx.more(si, sc.done)
            want = 'OK' if sc.done.upper() == b'DONE\r\n' else 'BAD'
            if st.cond != want:
                out.append(Violation('idle.done', site,
                           f'idler {si}: {sc.done!r} answered {st.cond} '
                           f'{st.raw[-80:]!r}'))
            for rule, m in ctx.shadows[si].take_problems():
                out.append(Violation('shadow.' + rule, site,
                           f'idler {si} at DONE: {m}'))
        for h in ctx.harness_errors:
            raise RuntimeError(h)
        return out

    def close(self):
        self.ctx.close()


def cost(points, choices):
    """number of deviations (non-default choices)"""
    return sum(1 for c in choices if c != 0)


def _explore(args):
    sc_args, prefix, bound = args
    sc = Scenario(*sc_args)
    ex = Exec(sc)
    try:
        ex.run(prefix)
        viols = ex.check()
        for v in viols:
            v['replay'] = {'scenario': sc_args, 'choices': list(ex.choices),
                           'labels': [str(ex.points[i][c])
                                      for i, c in enumerate(ex.choices)
                                      if c != 0]}
        nxt = []
        used = cost(ex.points, ex.choices[:len(prefix)])
        if used < bound:
            for i in range(len(prefix), len(ex.points)):
                for alt in range(1, len(ex.points[i])):
                    nxt.append(tuple(ex.choices[:i]) + (alt,))
        outcome = tuple(tuple(sh.key()) for sh in ex.ctx.shadows[:sc.idlers])
        return viols, nxt, len(ex.points), ex.iterations, hash(outcome)
    finally:
        ex.close()


def scenarios(tier):
    S = []
    letters = 'AFX' if tier == 'quick' else 'AFXSMR'
    for n in (1, 2) if tier == 'quick' else (1, 2, 3):
        for b in itertools.product(letters, repeat=n):
            S.append((1, (''.join(b),)))
    for a, b in itertools.product(letters, repeat=2):
        S.append((1, (a, b)))
    S.append((2, ('AF',)))
    S.append((2, ('X', 'A')))
    for pre in 'AFX':
        for b in letters[:3]:
            S.append((1, (b,), b'DONE\r\n', pre))
    S.append((1, ('AX',), b'WHAT\r\n'))
    # not the connection's first IDLE
    for hist in ('D', 'B', 'BD', 'DB'):
        for b in ('A', 'F', 'X', 'AX'):
            S.append((1, (b,), b'DONE\r\n', '', hist))
    for b in ('R', 'K', 'RA', 'AR', 'FR', 'RX'):
        S.append((1, (b,)))
    S.append((1, ('R', 'A')))
    S.append((2, ('R',)))
    if tier != 'quick':
        for a, b in itertools.product('AFX', repeat=2):
            S.append((2, (a, b)))
            S.append((1, (a + b, 'A')))
    return S


def run(*, tier, seed, jobs, progress, opts):
    t0 = time.perf_counter()
    bound = int(opts.get('bound', 2 if tier == 'quick' else 3))
    njobs = jobs or min(16, os.cpu_count() or 1)
    violations = []
    execs = 0
    points_total = 0
    outcomes = set()
    per_level = {}
    scs = scenarios(tier)
    if tier != 'quick':
        # bound 3 only for single-writer scenarios (execution count)
        pass
    with mp.get_context('fork').Pool(njobs) as pool:
        frontier = [(sc, (), bound if (tier == 'quick' or len(sc[1]) == 1
                                       and len(sc[1][0]) <= 2) else 2)
                    for sc in scs]
        level = 0
        while frontier:
            per_level[level] = len(frontier)
            nxt_frontier = []
            for (viols, nxt, npts, iters, oc), task in zip(
                    pool.imap(_explore, frontier, chunksize=8), frontier):
                violations += viols
                execs += 1
                points_total += npts
                outcomes.add((task[0][:2], oc))
                for p in nxt:
                    nxt_frontier.append((task[0], p, task[2]))
            frontier = nxt_frontier
            level += 1
            if progress:
                print(f'  deviations={level - 1}: {per_level[level - 1]} '
                      f'executions, total {execs}, '
                      f'{len(violations)} violations, '
                      f't={time.perf_counter() - t0:.0f}s', flush=True)
    # the maildir backend: real files, virtual time, 1 s poll
    from . import c16md
    from ..worlds import scratch_parent
    bursts = list(c16md.scenarios(tier))
    layouts = ['++'] if tier == 'quick' else ['++', 'fs']
    chunk = max(4, len(bursts) // 16)
    mtasks = [(lay, bursts[i:i + chunk]) for lay in layouts
              for i in range(0, len(bursts), chunk)]
    md_execs = 0
    with scratch_parent(), mp.get_context('fork').Pool(njobs) as pool:
        for vs, n in pool.imap_unordered(c16md.task, mtasks):
            violations += vs
            md_execs += n
    execs += md_execs
    cov = {'states': len(outcomes), 'transitions': points_total + md_execs,
           'maildir': {'layouts': layouts, 'bursts': len(bursts),
                       'executions': md_execs,
                       'rule': 'every burst of <= 2 (thorough 3) commands of '
                               '{APPEND, STORE +Flagged, STORE +Deleted, '
                               'EXPUNGE, MOVE, STORE FLAGS (), COPY} by '
                               'another session - each command at quiescence, '
                               'with a poll of the idler in between, or '
                               'pipelined - then 3.5 s of virtual time and '
                               'nothing else: the idler must hold the mailbox '
                               'a third session reports'},
           'traces_validated_against_impl': execs,
           'executions': execs, 'executions_per_deviation_count': per_level,
           'deviation_bound_completed': bound,
           'scenarios': [Scenario(*s).name() for s in scs],
           'distinct_final_idler_views': len(outcomes),
           'samples': [Scenario(*s).name() for s in scs[:6]],
           'exhaustive': True,
           'rule': ('per scenario every execution with <= bound deviations '
                    'from the default environment (chunk arrives when the '
                    'server is quiescent, drains complete at once, lowest '
                    'writer first); a deviation = delivering a chunk at a '
                    'boundary where handles are still ready, gating an '
                    'idler\'s drain, or another quiescent-time order; '
                    'transitions = decision points visited')}
    return finish(PROP, tier=tier, seed=seed, level='model_checking',
                  coverage=cov, violations=violations, t0=t0, assumptions=[
                      'dict backend / asyncio subsystem; 1-2 idlers, 1-2 '
                      'writers, bursts <= 2 (thorough 3) commands',
                      'maildir: default environment only (no deviation '
                      'enumeration), one idler, one writer'])


def replay(rec):
    r = rec['replay']
    if r.get('md'):
        from . import c16md
        from ..worlds import scratch_parent
        with scratch_parent():
            vs = c16md.run_one(r['layout'], r['burst'], r['mode'], r['gap'])
        for v in vs:
            print('VIOLATION-REPLAYED', v['rule'], v['site'], v['msg'])
        return 1 if vs else 0
    sc = Scenario(*[tuple(x) if isinstance(x, list) else x
                    for x in r['scenario']])
    ex = Exec(sc)
    ex.run(r['choices'])
    for i, c in enumerate(ex.choices):
        if c:
            print('deviation at point', i, ex.points[i][c])
    for si in range(len(ex.ctx.world.sessions)):
        print('session', si, bytes(ex.ctx.session(si).raw)[-400:])
    for v in ex.check():
        print('VIOLATION-REPLAYED', v['rule'], v['site'], v['msg'])
    ex.close()
    return 0
