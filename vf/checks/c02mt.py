"""C01/C02 on maildir under real concurrency (E7): two sessions with INBOX
selected run one mutating command each as separate server instances on the
same maildir; every schedule of their filesystem calls up to a preemption
bound.  Both clients apply the untagged data they receive (shadow client,
C01's transcript rules) and, after one NOOP each, must hold the mailbox."""
from __future__ import annotations

from ..driver import verb_of, apply_silent_store
from ..report import Violation
from ..shadow import Shadow
from . import mtmaildir as mt

SEL = lambda i: [b'SELECT INBOX', b'FETCH 1:* (UID FLAGS)']   # noqa: E731

PROGRAMS = {
    'APPEND': (SEL, lambda i: [b'APPEND INBOX ' + mt.lit(mt.body('k%d' % i))]),
    'STORE-own': (SEL, lambda i: [b'STORE %d +FLAGS (\\Flagged)' % (i + 1)]),
    'STORE-1': (SEL, lambda i: [b'STORE 1 +FLAGS (%s)' %
                                (b'\\Answered', b'\\Draft')[i]]),
    'STORE-1-replace': (SEL, lambda i: [b'STORE 1 FLAGS (%s)' %
                                        (b'\\Answered', b'\\Draft')[i]]),
    'EXPUNGE-own': (lambda i: SEL(i) + [
        b'STORE %d +FLAGS (\\Deleted)' % (i + 1)], lambda i: [b'EXPUNGE']),
    'MOVE-own': (SEL, lambda i: [b'MOVE %d a' % (i + 1)]),
    'MOVE-3': (SEL, lambda i: [b'MOVE 3 a']),
    'COPY-self': (SEL, lambda i: [b'COPY %d INBOX' % (i + 1)]),
    'FETCH-1-body': (SEL, lambda i: [b'FETCH 1 (BODY[])']),
    'NOOP': (SEL, lambda i: [b'NOOP']),
    'UIDSTORE-3.SILENT': (SEL, lambda i: [
        # (system flags: whether a keyword is permitted is the mailbox's
        # business, a client cannot assume a silent keyword change applied)
        b'UID STORE 3 +FLAGS.SILENT (%s)' % (b'\\Answered', b'\\Draft')[i]]),
    # holds a message that still lies in new/ (delivered while it had the
    # mailbox selected) *below* a newer one, and looks again
    'NOOP-holding-new': (lambda i: SEL(i) + [
        b'#DELIVER', b'NOOP', b'APPEND INBOX ' + mt.lit(mt.body('h%d' % i)),
        b'FETCH 1:* (UID FLAGS)'], lambda i: [b'NOOP']),
    'STORE-holding-new': (lambda i: SEL(i) + [
        b'#DELIVER', b'NOOP', b'APPEND INBOX ' + mt.lit(mt.body('h%d' % i)),
        b'FETCH 1:* (UID FLAGS)'], lambda i: [b'STORE 1 +FLAGS (\\Flagged)']),
    # a session that selects only now (its SELECT claims new/ -> cur/)
    'SELECT-unsel': (lambda i: [], lambda i: [b'SELECT INBOX',
                                              b'FETCH 1:* (UID FLAGS)']),
}
# pairs run with a message lying in new/ (delivered after the prologues)
DELIVER_PAIRS = [('NOOP', 'SELECT-unsel'), ('STORE-own', 'SELECT-unsel'),
                 ('FETCH-1-body', 'SELECT-unsel'), ('APPEND', 'SELECT-unsel'),
                 ('EXPUNGE-own', 'SELECT-unsel'), ('NOOP', 'NOOP')]
HOLDING_PAIRS = [('NOOP-holding-new', 'SELECT-unsel'),
                 ('STORE-holding-new', 'SELECT-unsel')]
ORDER = ['APPEND', 'STORE-own', 'STORE-1', 'EXPUNGE-own', 'MOVE-own', 'MOVE-3',
         'COPY-self', 'FETCH-1-body', 'STORE-1-replace', 'UIDSTORE-3.SILENT',
         'NOOP']


def pairs(names):
    return [(a, b) for x, a in enumerate(names) for b in names[x:]]


def run_schedule(layout, names, prefix, deliver=False):
    """Like mtmaildir.run_schedule, with a shadow client per session."""
    from ..procs import Sched
    n = len(names)
    cl = mt.Cluster(layout, n)
    shadows = [Shadow() for _ in range(n)]

    def feed(i, line, tagged, rs, pre_slots=None):
        sh = shadows[i]
        verb, uid = verb_of(line)
        if pre_slots is None:
            pre_slots = list(sh.slots)
        sh.begin(verb, uid)
        for r in rs:
            if r.kind == 'untagged':
                sh.apply(r)
        if tagged is not None:
            sh.end(tagged)
            if verb == 'STORE' and tagged.name == 'OK' \
                    and b'.SILENT' in line.upper():
                apply_silent_store(sh, line, pre_slots)
        sh.check_order()

    def cmd(i, line):
        tg, rs = cl.cmd(i, line, need_ok=False)
        feed(i, line, tg, rs)
        return tg
    try:
        for i, nm in enumerate(names):
            for line in PROGRAMS[nm][0](i):
                if line == b'#DELIVER':
                    cl.deliver()        # a file dropped into new/
                    continue
                tg = cmd(i, line)
                assert tg is not None and tg.name == 'OK', (line, tg)
        for sh in shadows:
            sh.take_problems()
        if deliver:
            cl.deliver()
        sched = Sched(cl.jail, private_dirs=[cl.worlds[0].tmp_dir],
                      shared_root=cl.worlds[0].root)
        procs = [sched.add(cl.worlds[i], cl.sessions[i],
                           PROGRAMS[nm][1](i)) for i, nm in enumerate(names)]
        ex = sched.run(prefix)
        info = {'stuck': ex.stuck, 'conds': [], 'problems': [], 'views': []}
        for i, p in enumerate(procs):
            for line, tagged, rs in p.results:
                feed(i, line, tagged, rs)
            info['conds'].append([r.name for _, r, _ in p.results])
        # convergence: one NOOP each (twice: the first may only pick up what
        # the other's NOOP has not flushed yet -- no: one is the claim)
        for i in range(n):
            cmd(i, b'NOOP')
        for i, sh in enumerate(shadows):
            info['problems'] += [(i, r, m) for r, m in sh.take_problems()]
            info['views'].append([(s.uid, None if s.flags is None else
                                   tuple(sorted(s.flags - {b'\\recent'})))
                                  for s in sh.slots])
        # the mailbox, as a new session (new process) sees it
        tg, rs = cl.cmd(n, b'EXAMINE INBOX', need_ok=False)
        tg, rs = cl.cmd(n, b'FETCH 1:* (UID FLAGS)', need_ok=False)
        info['truth'] = [(r.data.get('UID'), tuple(sorted(
            f.lower() for f in r.data.get('FLAGS', [])
            if f.lower() != b'\\recent')))
            for r in rs if r.kind == 'untagged' and r.name == 'FETCH']
        return ex, info
    finally:
        cl.close()


def judge(layout, names, ex, info):
    site = f'{layout}:threads:{names[0]}||{names[1]}'
    out = []
    sched = mt.explain(ex)

    def v(rule, msg):
        out.append(Violation(rule, site, f'{msg}; schedule: {sched}'))
    if info['stuck']:
        v('no-completion', f'process(es) {info["stuck"]} never answered')
    for i, rule, msg in info['problems']:
        v('shadow.' + rule, f'session {i}: {msg}')
    truth = info['truth']
    for i, view in enumerate(info['views']):
        if len(view) != len(truth):
            v('c02.count', f'session {i} after NOOP holds {len(view)} '
              f'messages {view}, the mailbox has {truth} (answers '
              f'{info["conds"]})')
            continue
        for k, ((uid, flags), (tuid, tflags)) in enumerate(zip(view, truth)):
            if uid is not None and uid != tuid:
                v('c02.uid', f'session {i}: seq {k + 1} client UID {uid}, '
                  f'mailbox {tuid}')
                break
            if flags is not None and flags != tflags:
                v('c02.flags', f'session {i}: UID {tuid} client flags '
                  f'{flags}, stored {tflags} (answers {info["conds"]})')
                break
    return out


def task(args):
    layout, names, bound, cap = args[:4]
    deliver = bool(args[4]) if len(args) > 4 else False
    sub = args[5] if len(args) > 5 else None
    from ..procs import explore, ScheduleError
    vios = []
    outcomes = set()

    def run(prefix):
        ex, info = run_schedule(layout, names, prefix, deliver)
        for x in judge(layout, names, ex, info):
            if deliver:
                x['site'] += '+delivery'
            x['replay'] = {'mt02': True, 'layout': layout,
                           'names': list(names), 'prefix': list(prefix),
                           'deliver': deliver}
            vios.append(x)
        outcomes.add((tuple(info['truth']), tuple(map(tuple, info['conds']))))
        return ex, info
    try:
        st = explore(run, bound, max_execs=cap, prefixes=sub)
    except ScheduleError as exc:
        return {'error': repr(exc), 'names': names}
    finally:
        mt.drop_templates()
    st['violations'] = vios
    st['outcomes'] = len(outcomes)
    st['names'] = names
    return st


def _split(layout, names, bound, deliver=False):
    """A bound >= 2 pair is one task per group of first-level deviations
    (the root schedule itself is covered by the pair's bound-1 task)."""
    chunks = mt.split_root(
        lambda: run_schedule(layout, names, [], deliver)[0], bound)
    return [(layout, names, bound, None, deliver, ch) for ch in chunks]


def tasks(tier):
    if tier == 'quick':
        core = ORDER[:8]
        return [('++', pr, 1, None) for pr in pairs(core)] + \
            [('++', pr, 1, None, True) for pr in DELIVER_PAIRS] + \
            [('++', pr, 1, None) for pr in HOLDING_PAIRS]
    T = [(layout, pr, 1, None) for layout in ('++', 'fs')
         for pr in pairs(ORDER)]
    T += [(layout, pr, 1, None, True) for layout in ('++', 'fs')
          for pr in DELIVER_PAIRS]
    T += [(layout, pr, 1, None) for layout in ('++', 'fs')
          for pr in HOLDING_PAIRS]
    for pr in HOLDING_PAIRS + pairs(ORDER[:4]):
        T += _split('++', pr, 2)
    return T
