"""C04 on maildir under real concurrency (E7): two server threads/processes,
every schedule of their filesystem calls up to a preemption bound."""
from __future__ import annotations

from ..procs import explore, ScheduleError
from ..report import Violation
from . import mtmaildir as mt
from .c04 import Monitor, expand

# name -> (prologue(i), program(i), expected adds [(token|source token)])
# i is the process index (0/1); messages are chosen so that the two
# processes never address the same message


def _append(i):
    return [b'APPEND INBOX ' + mt.lit(mt.body('k%d' % i))]


PROGRAMS = {
    'APPEND': (lambda i: [b'SELECT INBOX'], _append,
               lambda i: ['k%d' % i]),
    'APPEND-unselected': (lambda i: [], _append, lambda i: ['k%d' % i]),
    'COPY': (lambda i: [b'SELECT a'],
             lambda i: [b'COPY %d INBOX' % (i + 1)],
             lambda i: ['a%d' % (i + 1)]),
    'MOVE': (lambda i: [b'SELECT a'],
             lambda i: [b'MOVE %d INBOX' % (i + 1)],
             lambda i: ['a%d' % (i + 1)]),
    'SELECT': (lambda i: [], lambda i: [b'SELECT INBOX'], lambda i: []),
    'NOOP': (lambda i: [b'SELECT INBOX'], lambda i: [b'NOOP'], lambda i: []),
    'EXPUNGE': (lambda i: [b'SELECT INBOX',
                           b'STORE %d +FLAGS.SILENT (\\Deleted)' % (i + 1)],
                lambda i: [b'EXPUNGE'], lambda i: []),
    'STATUS': (lambda i: [], lambda i: [b'STATUS INBOX (UIDNEXT MESSAGES)'],
               lambda i: []),
    # CHECK cleans the UID list up (drops records whose file is gone)
    'CHECK': (lambda i: [b'SELECT INBOX'], lambda i: [b'CHECK'],
              lambda i: []),
    # the other side of a move: a session scanning the *source* mailbox
    'NOOP-a': (lambda i: [b'SELECT a'], lambda i: [b'NOOP'], lambda i: []),
    'CHECK-a': (lambda i: [b'SELECT a'], lambda i: [b'CHECK'], lambda i: []),
    # both processes move the same message into the mailbox they have
    # selected (same file, same key, new UID)
    'MOVE-self': (lambda i: [b'SELECT INBOX'], lambda i: [b'MOVE 1 INBOX'],
                  lambda i: []),
    # out of INBOX and (second command) back again
    'MOVE-out-back': (lambda i: [b'SELECT INBOX'],
                      lambda i: [b'MOVE %d a' % (i + 1), b'SELECT a',
                                 b'MOVE * INBOX'],
                      lambda i: []),
    # ... with a flag change in between (the file is renamed, its key stays)
    'MOVE-out-flag-back': (lambda i: [b'SELECT INBOX'],
                           lambda i: [b'MOVE %d a' % (i + 1), b'SELECT a',
                                      b'STORE * +FLAGS (\\Flagged)',
                                      b'MOVE * INBOX'],
                           lambda i: []),
    # the session holds a delivered message that still lies in new/ (it got
    # its UID from this session's NOOP) and cleans up
    'CHECK-holding-new': (lambda i: [b'SELECT INBOX', b'#DELIVER', b'NOOP'],
                          lambda i: [b'CHECK'], lambda i: []),
    'NOOP-holding-new': (lambda i: [b'SELECT INBOX', b'#DELIVER', b'NOOP'],
                         lambda i: [b'NOOP'], lambda i: []),
    # there and straight back by the *other* session (the file keeps its key)
    'MOVE-to-a': (lambda i: [b'SELECT INBOX'], lambda i: [b'MOVE 1 a'],
                  lambda i: []),
    'MOVE-back-from-a': (lambda i: [b'SELECT a'],
                         lambda i: [b'NOOP', b'MOVE * INBOX'], lambda i: []),
    # a maildir folder made by another program: no dovecot-uidlist yet
    'APPEND-raw': (lambda i: [], lambda i: [b'APPEND raw ' +
                                            mt.lit(mt.body('r%d' % i))],
                   lambda i: [('raw', 'r%d' % i)]),
    'SELECT-raw': (lambda i: [], lambda i: [b'SELECT raw'], lambda i: []),
}
ORDER = ['APPEND', 'SELECT', 'COPY', 'MOVE', 'EXPUNGE', 'NOOP',
         'APPEND-unselected', 'STATUS']
# further pairs (not the full product)
EXTRA_PAIRS = [('APPEND', 'CHECK'), ('COPY', 'CHECK'), ('MOVE', 'CHECK'),
               ('CHECK', 'CHECK'), ('MOVE', 'NOOP-a'), ('MOVE', 'CHECK-a'),
               ('MOVE-self', 'MOVE-self'), ('MOVE-self', 'NOOP'),
               ('MOVE-self', 'SELECT'), ('MOVE-out-back', 'NOOP'),
               ('MOVE-out-back', 'SELECT'), ('MOVE-out-back', 'CHECK'),
               ('MOVE-out-flag-back', 'NOOP'), ('MOVE-out-flag-back', 'SELECT'),
               ('MOVE-to-a', 'MOVE-back-from-a'),
               ('CHECK-holding-new', 'SELECT'), ('NOOP-holding-new', 'SELECT'),
               ('CHECK-holding-new', 'EXPUNGE'),
               ('APPEND-raw', 'APPEND-raw'), ('APPEND-raw', 'SELECT-raw'),
               ('SELECT-raw', 'SELECT-raw')]


def pairs(names):
    out = []
    for x, a in enumerate(names):
        for b in names[x:]:
            out.append((a, b))
    return out


def judge(layout, names, deliver, ex, info):
    """C04 oracle for one execution."""
    site = f'{layout}:threads:' + '||'.join(names) + \
        ('+delivery' if deliver else '')
    out = []
    sched = mt.explain(ex)

    def v(rule, msg):
        out.append(Violation(rule, site, f'{msg}; schedule: {sched}'))
    if info['stuck']:
        v('no-completion', f'process(es) {info["stuck"]} never answered')
    final = info['final']
    mon = Monitor()
    mon.observe({k: e[:3] for k, e in info['initial'].items() if e},
                'initial')
    mon.observe({k: e[:3] for k, e in final.items() if e}, 'final')
    for rule, where, msg in mon.problems:
        v(rule, msg)
    for nm, ent in final.items():
        if ent is None:
            v('mailbox-unreadable', f'{nm} cannot be examined afterwards')
            continue
        rows = ent[2]
        uids = [u for u, _ in rows]
        if len(set(uids)) != len(uids) or uids != sorted(uids):
            v('uid-order', f'{nm}: UID FETCH lists {rows}')
        if ent[3] != 'OK':
            v('mailbox-unreadable', f'{nm}: UID FETCH 1:* answered {ent[3]}')
        toks = [t for _, t in rows]
        for t in set(toks):
            if toks.count(t) > 1 and t != '?':
                v('message-two-uids',
                  f'{nm}: the one message {t} is listed under UIDs '
                  f'{[u for u, x in rows if x == t]}')
    # a message keeps its UID (dump taken after the prologues vs. final)
    if info.get('before'):
        for nm, ent in info['before'].items():
            if ent is None or final.get(nm) is None:
                continue
            fin_by_tok: dict = {}
            for u, t in final[nm][2]:
                fin_by_tok.setdefault(t, []).append(u)
            for u, t in ent[2]:
                if t in fin_by_tok and u not in fin_by_tok[t] and t != '?':
                    v('uid-changed', f'{nm}: {t} had UID {u} (UIDVALIDITY '
                      f'{ent[0]}), now {fin_by_tok[t]} (UIDVALIDITY '
                      f'{final[nm][0]})')
    # every session agrees on what each UID denotes
    for i, view in enumerate(info['views']):
        for nm, ent in view.items():
            if ent is None or final.get(nm) is None:
                continue
            fin = dict(final[nm][2])
            for u, t in ent[2]:
                if u in fin and fin[u] != t:
                    v('uid-denotes-two-messages',
                      f'{nm} UID {u}: session {i} sees {t}, a new session '
                      f'{fin[u]}')
    # a UID announced for INBOX exists there afterwards (pairs in which
    # nobody can have removed it again)
    if names == ('MOVE-to-a', 'MOVE-back-from-a') and final.get('INBOX'):
        have = {u for u, _ in final['INBOX'][2]}
        for i, res in enumerate(info['results']):
            for line, r, rs in res:
                if r.name != 'OK' or not line.upper().endswith(b' INBOX'):
                    continue
                code = r.code_arg[2] if r.code == b'COPYUID' else None
                for x in rs:
                    if x.kind == 'untagged' and x.code == b'COPYUID':
                        code = x.code_arg[2]
                for u in (expand(code) if code else ()):
                    if u not in have:
                        v('reported-uid-wrong',
                          f'process {i} was told UID {u} in INBOX (COPYUID); '
                          f'UID FETCH finds nothing; INBOX '
                          f'{sorted(final["INBOX"][2])}')
    # reported UIDs are the ones UID FETCH finds
    inbox = dict(final['INBOX'][2]) if final.get('INBOX') else {}
    for i, res in enumerate(info['results']):
        want = PROGRAMS[names[i]][2](i)
        box = 'INBOX'
        if want and isinstance(want[0], tuple):
            box = want[0][0]
            want = [t for _, t in want]
            inbox = dict(final[box][2]) if final.get(box) else {}
        for line, r, rs in res:
            if r.name != 'OK':
                continue
            code = None
            if r.code == b'APPENDUID':
                code = r.code_arg[1]
            elif r.code == b'COPYUID':
                code = r.code_arg[2]
            for x in rs:
                if x.kind == 'untagged' and x.code == b'COPYUID':
                    code = x.code_arg[2]
            if code is None:
                if want and line.split()[0] in (b'APPEND', b'COPY', b'MOVE'):
                    v('uid-not-reported',
                      f'process {i}: {line[:24]!r} OK without UID code')
                continue
            got = expand(code)
            for u, t in zip(got, want):
                if inbox.get(u) != t:
                    v('reported-uid-wrong',
                      f'process {i} was told UID {u} for {t}; UID FETCH '
                      f'finds {inbox.get(u)}; {box} {sorted(inbox.items())}')
    return out


def task(args):
    """Explore every schedule of one program pair with <= bound preemptions
    (in a forked worker)."""
    layout, names, deliver, bound, cap = args[:5]
    sub = args[5] if len(args) > 5 else None
    pre = [PROGRAMS[n][0](i) for i, n in enumerate(names)]
    progs = [PROGRAMS[n][1](i) for i, n in enumerate(names)]
    vios: list = []
    outcomes: set = set()

    def run(prefix):
        ex, info = mt.run_schedule(layout, progs, prefix, deliver=deliver,
                                   pre=pre)
        for x in judge(layout, names, deliver, ex, info):
            x['replay'] = {'mt': True, 'layout': layout, 'names': list(names),
                           'deliver': deliver, 'prefix': list(prefix)}
            vios.append(x)
        fin = info['final'].get('INBOX')
        outcomes.add((tuple(fin[2]) if fin else None,
                      tuple((r.name, r.code_arg) for res in info['results']
                            for _, r, _ in res)))
        return ex, info
    try:
        st = explore(run, bound, max_execs=cap, prefixes=sub)
    except ScheduleError as exc:
        return {'error': repr(exc), 'names': names}
    finally:
        mt.drop_templates()
    st['violations'] = vios
    st['outcomes'] = len(outcomes)
    st['names'] = names
    return st
