"""C14 -- no message is lost or half-applied when a command fails midway.

Fault enumeration on the real server:
 (a) dict and maildir: cancel / reset / EOF of the connection at EVERY loop
     iteration boundary of MOVE, COPY, multi-APPEND and EXPUNGE (and a
     synchronising-literal multi-APPEND abandoned after each literal);
 (b) storage faults: dict - the n-th MailboxData.append/copy/move/delete call
     raises, for every n; maildir - the n-th mutating filesystem call fails
     with ENOSPC, for every n;
 (c) maildir process kill at every filesystem boundary of MOVE histories
     (C15's crash machinery), then restart.
Oracle: token conservation (every moved message is in source or destination,
after an acknowledged MOVE in exactly one), multi-APPEND all-or-nothing, a
command answered NO/BAD leaves every mailbox unchanged."""
from __future__ import annotations

import errno
import multiprocessing as mp
import os
import re
import shutil
import time

from .. import fsjail
from ..driver import Ctx
from ..loop import StepBudgetExceeded
from ..report import Violation, finish
from ..worlds import DictWorld, MaildirWorld, scratch_parent

PROP = 'C14'
TOKEN = re.compile(rb'token-([A-Za-z0-9]+)-body')


def body(tok: str) -> bytes:
    return (f'Subject: {tok}\r\n\r\ntoken-{tok}-body\r\n').encode()


def lit(b, plus=True):
    return b'{%d%s}\r\n%s' % (len(b), b'+' if plus else b'', b)


COMMANDS = {
    'MOVE1': b'MOVE 1 Other',
    'MOVE1:3': b'MOVE 1:3 Other',
    'UIDMOVE': b'UID MOVE 1:* Other',
    'MOVE-same': b'MOVE 2 INBOX',
    'COPY1:3': b'COPY 1:3 Other',
    'MULTIAPPEND': b'APPEND INBOX ' + lit(body('m1')) + b' ' +
                   lit(body('m2')) + b' (\\Seen) ' + lit(body('m3')),
    'MULTIAPPEND-Other': b'APPEND Other ' + lit(body('m1')) + b' ' +
                         lit(body('m2')),
    # a large second message: size-dependent paths (executor hand-off,
    # chunked reads) only exist above some threshold
    'MULTIAPPEND-big': b'APPEND INBOX ' + lit(body('m1')) + b' ' +
                       lit(body('m2') + b'filler line\r\n' * 40000),
    'EXPUNGE3': b'EXPUNGE',
    'APPEND1': b'APPEND INBOX ' + lit(body('m1')),
}
NEW_TOKENS = {'MULTIAPPEND': ['m1', 'm2', 'm3'],
              'MULTIAPPEND-big': ['m1', 'm2'],
              'MULTIAPPEND-Other': ['m1', 'm2'], 'APPEND1': ['m1']}


def make_world(kind):
    if kind == 'dict':
        w = DictWorld(users={'alice': ('pw', ())})
    else:
        w = MaildirWorld(layout=kind, users={'alice': ('pw', ())})
    ctx = Ctx(w)
    a = ctx.connect()
    assert ctx.do(a, b'LOGIN alice pw').cond == 'OK'
    assert ctx.do(a, b'CREATE Other').cond == 'OK'
    for t in ('t1', 't2', 't3'):
        assert ctx.do(a, b'APPEND INBOX ' + lit(body(t))).cond == 'OK'
    assert ctx.do(a, b'APPEND Other ' + lit(body('o1'))).cond == 'OK'
    assert ctx.do(a, b'SELECT INBOX').cond == 'OK'
    return ctx, a


def prepare(ctx, a, cname):
    if cname == 'EXPUNGE3':
        assert ctx.do(a, b'STORE 1:3 +FLAGS.SILENT (\\Deleted)').cond == 'OK'


def dump(ctx):
    """{box: sorted tokens} through a fresh connection (black box)."""
    p = ctx.connect()
    out = {}
    st = ctx.do(p, b'LOGIN alice pw')
    if st.cond != 'OK':
        return {'_error': st.raw}
    for box in (b'INBOX', b'Other'):
        st = ctx.do(p, b'EXAMINE ' + box)
        if st.cond != 'OK':
            out[box.decode()] = ('examine-failed', st.raw[-80:])
            continue
        sf = ctx.do(p, b'FETCH 1:* (UID BODY.PEEK[])')
        toks = []
        for r in sf.untagged('FETCH'):
            m = TOKEN.search(r.data.get(('BODY', b'', None)) or b'')
            toks.append(m.group(1).decode() if m else '?')
        out[box.decode()] = sorted(toks)
    ctx.do(p, b'LOGOUT')
    ctx.harness_errors.clear()
    return out


BEFORE = {'INBOX': ['t1', 't2', 't3'], 'Other': ['o1']}


def judge(cname, cond, d, site, label, out):
    rep = {'command': cname, 'fault': label}

    def bad(rule, msg):
        out.append(Violation(rule, site, f'[{cname} / {label}] {msg}; '
                             f'mailboxes now {d}', replay=rep))
    if '_error' in d or any(isinstance(v, tuple) for v in d.values()):
        bad('probe-failed', 'mailboxes cannot be read after the fault')
        return
    inbox, other = d['INBOX'], d['Other']
    allt = inbox + other
    # nothing that existed may vanish unless the command removes it
    if cname.startswith('MOVE') or cname == 'UIDMOVE':
        for t in ('t1', 't2', 't3', 'o1'):
            n = allt.count(t)
            if n == 0:
                bad('message-lost', f'{t} is in neither mailbox')
            elif n > 1 and cond == 'OK':
                bad('message-duplicated', f'{t} exists {n} times after an '
                    f'acknowledged MOVE')
        if cond == 'OK' and cname in ('MOVE1:3', 'UIDMOVE') and inbox:
            bad('move-incomplete', 'MOVE answered OK but the source still '
                'holds ' + str(inbox))
    elif cname == 'COPY1:3':
        if inbox != BEFORE['INBOX']:
            bad('source-changed', 'COPY changed the source')
    elif cname in NEW_TOKENS:
        new = NEW_TOKENS[cname]
        present = [t for t in new if t in allt]
        for t in BEFORE['INBOX'] + BEFORE['Other']:
            if t not in allt:
                bad('message-lost', f'{t} vanished')
        if cond == 'OK':
            if present != new:
                bad('append-incomplete', f'OK but only {present} of {new} '
                    f'are stored')
        elif present and len(new) > 1 and (
                present != new or cond in ('NO', 'BAD')):
            # (all stored but the OK could not be delivered because the
            # connection was already gone is still all-or-nothing)
            out.append(Violation(
                'multiappend-partial', site.split(':')[0] + ':' +
                site.split(':')[-1],
                f'[{cname} / {label}] the command did not complete with OK '
                f'({cond}) but {present} of {new} are in the mailbox; '
                f'mailboxes now {d}', replay=rep))
        elif present and len(new) == 1 and cond in ('NO', 'BAD'):
            bad('refused-but-changed', f'{cond} but {present} stored')
    elif cname == 'EXPUNGE3':
        pass
    if cond in ('NO', 'BAD') and d != BEFORE and cname not in NEW_TOKENS \
            and cname != 'EXPUNGE3':
        bad('refused-but-changed', f'answered {cond} but contents changed')
    if cond in ('NO', 'BAD') and cname == 'EXPUNGE3' and \
            inbox not in (BEFORE['INBOX'],):
        bad('refused-but-changed', f'EXPUNGE answered {cond} but removed '
            f'messages')


# ---- (a) cancel / reset / eof at every iteration boundary -------------------

def count_boundaries(kind, cname, line):
    ctx, a = make_world(kind)
    try:
        prepare(ctx, a, cname)
        s = ctx.session(a)
        s.conn.feed(b'x1 ' + line + b'\r\n')
        n = 0
        loop = ctx.world.loop
        while loop.has_ready and n < 3000:
            loop.step()
            n += 1
        return n
    finally:
        ctx.close()


def run_conn_fault(kind, cname, line, i, fault):
    out = []
    ctx, a = make_world(kind)
    site = f'{kind}:{cname}:{fault}'
    try:
        prepare(ctx, a, cname)
        s = ctx.session(a)
        loop = ctx.world.loop
        s.conn.feed(b'x1 ' + line + b'\r\n')
        for _ in range(i):
            if loop.has_ready:
                loop.step()
        if fault == 'cancel':
            s.task.cancel()
        elif fault == 'reset':
            s.conn.reset()
        elif fault == 'eof':
            s.conn.eof()
        try:
            loop.run_until_quiescent(max_handles=20000, horizon=30.0)
        except StepBudgetExceeded as exc:
            out.append(Violation('hang-after-fault', site, str(exc)))
        data, rs = s.pull()
        cond = None
        for r in rs:
            if r.kind == 'tagged' and r.tag == b'x1':
                cond = r.name
        m = re.search(rb'(^|\n)x1 (OK|NO|BAD)', bytes(s.conn.dropped))
        if cond is None and m:
            cond = m.group(2).decode()     # completed; the peer was gone
        d = dump(ctx)
        judge(cname, cond, d, site, f'{fault}@{i}', out)
    finally:
        ctx.close()
    return out


def run_sync_literal_abandon(kind, nlit, fault):
    """Multi-APPEND with synchronising literals, abandoned after literal
    number ``nlit``."""
    out = []
    ctx, a = make_world(kind)
    site = f'{kind}:MULTIAPPEND-sync:{fault}'
    try:
        s = ctx.session(a)
        w = ctx.world
        toks = ['m1', 'm2', 'm3']
        chunks = [b'x1 APPEND INBOX {%d}\r\n' % len(body(toks[0]))]
        for k, t in enumerate(toks):
            nxt = b' {%d}\r\n' % len(body(toks[k + 1])) if k + 1 < len(toks) \
                else b'\r\n'
            chunks.append(body(t) + nxt)
        w.send(s, chunks[0])
        for k in range(nlit):
            w.send(s, chunks[k + 1])
        if fault == 'eof':
            s.conn.eof()
        elif fault == 'reset':
            s.conn.reset()
        elif fault == 'cancel':
            s.task.cancel()
        elif fault == 'partial-then-eof':
            s.conn.feed(chunks[nlit + 1][:5] if nlit + 1 < len(chunks)
                        else b'')
            s.conn.eof()
        w.loop.run_until_quiescent(max_handles=20000, horizon=30.0)
        data, rs = s.pull()
        cond = None
        for r in rs:
            if r.kind == 'tagged' and r.tag == b'x1':
                cond = r.name
        d = dump(ctx)
        judge('MULTIAPPEND', cond, d, site, f'{fault} after literal {nlit}',
              out)
    finally:
        ctx.close()
    return out


# ---- (b) storage faults -------------------------------------------------------

class Injected(Exception):
    pass


def run_storage_fault_dict(cname, line, n):
    from pymap.backend.dict.mailbox import MailboxData
    out = []
    ctx, a = make_world('dict')
    site = f'dict:{cname}:storage-exception'
    calls = {'n': 0}
    origs = {}

    def wrap(name):
        orig = getattr(MailboxData, name)
        origs[name] = orig

        async def f(self, *args, **kw):
            calls['n'] += 1
            if calls['n'] == n:
                raise Injected(f'{name} call #{n}')
            return await orig(self, *args, **kw)
        setattr(MailboxData, name, f)
    try:
        prepare(ctx, a, cname)
        for nm in ('append', 'copy', 'move', 'delete'):
            wrap(nm)
        st = ctx.do(a, line, tag=b'x1')
        for nm, o in origs.items():
            setattr(MailboxData, nm, o)
        origs.clear()
        ctx.harness_errors.clear()
        if calls['n'] < n:
            return out, False
        d = dump(ctx)
        judge(cname, st.cond, d, site, f'storage call #{n} raises', out)
        return out, True
    finally:
        for nm, o in origs.items():
            setattr(MailboxData, nm, o)
        ctx.close()


def run_storage_fault_maildir(layout, cname, line, n):
    out = []
    ctx, a = make_world(layout)
    site = f'{layout}:{cname}:ENOSPC'
    w = ctx.world
    try:
        prepare(ctx, a, cname)
        start = w.jail.mut_count
        hit = {'v': False}
        store = os.path.realpath(w.root)

        seen = {'k': 0}

        def boundary(idx, op, rps):
            # only calls that need space can fail with ENOSPC
            if op not in ('open-w', 'mkdir', 'makedirs', 'link', 'symlink'):
                return
            seen['k'] += 1
            if seen['k'] == n:
                hit['v'] = True
                raise OSError(errno.ENOSPC, 'No space left on device (injected)')
        w.jail.on_boundary = boundary
        st = ctx.do(a, line, tag=b'x1')
        w.jail.on_boundary = None
        ctx.harness_errors.clear()
        if not hit['v']:
            return out, False
        d = dump(ctx)
        judge(cname, st.cond, d, site, f'filesystem call #{n} fails', out)
        return out, True
    finally:
        w.jail.on_boundary = None
        ctx.close()


# ---- tasks ----------------------------------------------------------------------

def _task(args):
    kind = args[0]
    try:
        if kind == 'conn':
            _, world, cname, i, fault = args
            return run_conn_fault(world, cname, COMMANDS[cname], i, fault), 1
        if kind == 'sync':
            _, world, nlit, fault = args
            return run_sync_literal_abandon(world, nlit, fault), 1
        if kind == 'dict-storage':
            _, cname = args
            out = []
            n = 1
            while n < 40:
                vs, hit = run_storage_fault_dict(cname, COMMANDS[cname], n)
                if not hit:
                    break
                out += vs
                n += 1
            return out, n - 1
        if kind == 'fs-storage':
            _, layout, cname = args
            out = []
            n = 1
            while n < 400:
                vs, hit = run_storage_fault_maildir(layout, cname,
                                                    COMMANDS[cname], n)
                if not hit:
                    break
                out += vs
                n += 1
            return out, n - 1
        if kind == 'kill':
            from . import c15
            _, layout, hist = args
            vs, n, _ = c15._work((layout, hist, False))
            keep = [v for v in vs if v['rule'] in (
                'lost-in-move', 'acked-message-lost', 'uid-reassigned')]
            for v in keep:
                v['site'] = 'kill:' + v['site']
            return keep, n
    except AssertionError as exc:
        return [Violation('setup-failed', str(args[:3]), repr(exc))], 0
    raise AssertionError(args)


def _count(args):
    world, cname = args
    return world, cname, count_boundaries(world, cname, COMMANDS[cname])


def run(*, tier, seed, jobs, progress, opts):
    with scratch_parent():
        return _run(tier=tier, seed=seed, jobs=jobs, progress=progress,
                    opts=opts)


def _run(*, tier, seed, jobs, progress, opts):
    t0 = time.perf_counter()
    njobs = jobs or min(16, os.cpu_count() or 1)
    worlds = ['dict', '++'] if tier == 'quick' else ['dict', '++', 'fs']
    violations = []
    evals = 0
    fam = {}
    with mp.get_context('fork').Pool(njobs, maxtasksperchild=60) as pool:
        counts = list(pool.imap_unordered(
            _count, [(w, c) for w in worlds for c in COMMANDS]))
        tasks = []
        for world, cname, n in counts:
            for i in range(0, n + 1):
                for fault in ('cancel', 'reset', 'eof'):
                    tasks.append(('conn', world, cname, i, fault))
        for world in worlds:
            for nlit in (0, 1, 2, 3):
                for fault in ('eof', 'reset', 'cancel', 'partial-then-eof'):
                    tasks.append(('sync', world, nlit, fault))
        for cname in COMMANDS:
            tasks.append(('dict-storage', cname))
            for layout in worlds[1:]:
                tasks.append(('fs-storage', layout, cname))
        from . import c15
        names = [n for n, _ in c15.ALPHABET]
        cr, mv, ap = names.index('CREATE-a'), names.index('MOVE1-a'), \
            names.index('APPEND-INBOX')
        for layout in worlds[1:]:
            for hist in ((cr, mv), (cr, mv, mv), (cr, ap, mv),
                         (cr, mv, ap, mv)):
                tasks.append(('kill', layout, hist))
        for vs, n in pool.imap_unordered(_task, tasks, chunksize=4):
            violations += vs
            evals += n
        for t in tasks:
            fam[t[0]] = fam.get(t[0], 0) + 1
    # (d) E7: a mover/copier/appender and a second session on the same
    # messages as two real server instances on one maildir, every schedule of
    # their filesystem calls
    from . import c14mt
    mtc = {'pairs': 0, 'executions': 0, 'distinct_outcomes': 0,
           'by_preemptions': {}, 'max_decision_points': 0}
    with mp.get_context('fork').Pool(njobs) as pool:
        for st in pool.imap_unordered(c14mt.task, c14mt.tasks(tier),
                                      chunksize=1):
            if 'error' in st:
                raise RuntimeError(f'E7 harness error: {st}')
            mtc['pairs'] += 1
            mtc['executions'] += st['executions']
            mtc['distinct_outcomes'] += st['outcomes']
            mtc['max_decision_points'] = max(mtc['max_decision_points'],
                                             st['max_points'])
            for k, n in st['by_preemptions'].items():
                mtc['by_preemptions'][str(k)] = \
                    mtc['by_preemptions'].get(str(k), 0) + n
            violations += st['violations']
    evals += mtc['executions']
    cov = {'evaluations': evals, 'distinct_nontrivial': len(tasks),
           'threads': mtc,
           'tasks_per_family': fam,
           'iteration_boundaries': {f'{w}:{c}': n for w, c, n in counts},
           'commands': {k: v[:60].decode('latin1') for k, v in COMMANDS.items()},
           'worlds': worlds,
           'rule': ('(a) per command and backend: cancel, reset and EOF at '
                    'every loop-iteration boundary from the first byte to '
                    'quiescence; synchronising-literal multi-APPEND abandoned '
                    'after each literal in 4 ways; (b) the n-th storage call '
                    '(dict) / the n-th mutating filesystem call (maildir, '
                    'ENOSPC) fails, for every n until the command no longer '
                    'reaches n; (c) kill at every filesystem boundary of 4 '
                    'MOVE histories per layout, then restart; (d) E7: two '
                    'real server instances on one maildir (as two worker '
                    'threads or processes are), one running MOVE / MOVE of '
                    'two / COPY / multi-APPEND / EXPUNGE, the other a command '
                    'on the same messages (STORE, FETCH BODY[], MOVE, COPY, '
                    'SELECT, NOOP, APPEND, EXPUNGE, CHECK): every schedule '
                    'of their filesystem calls with <= 1 preemption '
                    '(thorough: both layouts, core pairs 2)'),
           'samples': [str(t) for t in tasks[::max(1, len(tasks) // 8)]],
           'exhaustive': True}
    return finish(PROP, tier=tier, seed=seed, level='fault_enumeration',
                  coverage=cov, violations=violations, t0=t0, assumptions=[
                      'asyncio subsystem (dict and maildir); one acting '
                      'session, probe through a fresh connection after the '
                      'fault',
                      'E7: thread/process interleavings at filesystem-call '
                      'granularity (maildir sessions share only the '
                      'filesystem); contents judged after both commands ended'])


def replay(rec):
    r = rec['replay']
    if r.get('mt14'):
        from . import c14mt, mtmaildir as mt
        names = tuple(r['names'])
        with scratch_parent():
            pre = [c14mt.PROGRAMS[n][0](i) for i, n in enumerate(names)]
            progs = [c14mt.PROGRAMS[n][1](i) for i, n in enumerate(names)]
            ex, info = mt.run_schedule(r['layout'], progs, r['prefix'],
                                       pre=pre)
            viols = c14mt.judge(r['layout'], names, False, ex, info)
            mt.drop_templates()
        for v in viols:
            print('VIOLATION-REPLAYED', v['rule'], v['site'], v['msg'])
        return 1 if viols else 0
    print(r)
    return 0
