"""E5 -- explicit-state breadth-first search over event histories.

A state is the event history that reaches it; build(history) replays on a
fresh world (live asyncio objects cannot be copied).  Every transition is one
execution of the real implementation.

Model protocol (duck-typed):
    alphabet() -> list                      event descriptors (JSON-able)
    new() -> ctx                            fresh world + prologue
    enabled(ctx) -> list[int]               indices into alphabet
    apply(ctx, i) -> list[Violation]        run event i with step oracles
    key(ctx) -> hashable                    canonical key
    outcome(ctx) -> bytes                   digest input: what the last step showed
    probe(ctx) -> list[Violation]           end-of-state oracle (may perturb)
    close(ctx)
"""
from __future__ import annotations

import hashlib
import multiprocessing as mp
import os
import time
import traceback

from .report import Violation

_MODEL = None
_OPTS: dict = {}


def _digest(obj) -> bytes:
    return hashlib.blake2b(repr(obj).encode('utf-8', 'surrogatepass'),
                           digest_size=16).digest()


def replay(model, history):
    ctx = model.new()
    for ev in history:
        model.apply(ctx, ev)
    return ctx


def _expand_one(model, history, ev, double: bool):
    ctx = replay(model, history)
    try:
        viols = list(model.apply(ctx, ev))
        key = _digest(model.key(ctx))
        outcome = _digest(model.outcome(ctx))
        term = bool(getattr(model, 'terminal', lambda c: False)(ctx))
        viols += list(model.probe(ctx))
    finally:
        model.close(ctx)
    if double:
        ctx2 = replay(model, history)
        try:
            model.apply(ctx2, ev)
            key2 = _digest(model.key(ctx2))
            out2 = _digest(model.outcome(ctx2))
        finally:
            model.close(ctx2)
        if key2 != key or out2 != outcome:
            raise RuntimeError('NONDETERMINISM: replaying %r + %r gave a '
                               'different key/outcome' % (history, ev))
    for v in viols:
        if v.get('replay') is None:
            v['replay'] = {'model': model.name,
                           'params': getattr(model, 'params', {}),
                           'history': list(history) + [ev],
                           'events': [model.alphabet()[i]
                                      for i in list(history) + [ev]]}
    return ev, key, outcome, term, viols


def _expand(history):
    model = _MODEL
    out = []
    try:
        ctx = replay(model, history)
        try:
            enabled = list(model.enabled(ctx))
        finally:
            model.close(ctx)
        for ev in enabled:
            h = _digest((history, ev))
            double = (h[0] == 0 and h[1] < 3 * _OPTS.get('double_pct', 1))
            out.append(_expand_one(model, history, ev, double))
        return history, out, None
    except Exception:
        return history, out, traceback.format_exc()


class Result:
    def __init__(self) -> None:
        self.states = 0
        self.transitions = 0
        self.depth_completed = 0
        self.frontier_sizes: list[int] = []
        self.violations: list[Violation] = []
        self.outcomes_per_event: dict[int, set] = {}
        self.capped = False
        self.errors: list[str] = []
        self.samples: list = []
        self.wall = 0.0
        self.exhausted = False     # frontier became empty before depth bound
        self.state_histories: list[tuple] = [()]

    def coverage(self, model) -> dict:
        alpha = model.alphabet()
        vac = [alpha[i] for i, s in sorted(self.outcomes_per_event.items())
               if len(s) <= 1]
        return {
            'states': self.states,
            'transitions': self.transitions,
            'traces_validated_against_impl': self.transitions,
            'depth_completed': self.depth_completed,
            'frontier_sizes': self.frontier_sizes,
            'alphabet_size': len(alpha),
            'distinct_outcomes_per_event': {
                str(alpha[i]): len(s)
                for i, s in sorted(self.outcomes_per_event.items())},
            'single_outcome_events': vac,
            'state_cap_hit': self.capped,
            'state_space_closed_before_bound': self.exhausted,
            'samples': self.samples[:6],
        }


def bfs(model, depth: int, *, jobs: int | None = None, max_states: int = 10**7,
        seed: int = 0, time_budget: float | None = None,
        double_pct: int = 1, progress: bool = False) -> Result:
    """Level-synchronous BFS to ``depth`` events beyond the prologue."""
    global _MODEL, _OPTS
    _MODEL = model
    _OPTS = {'double_pct': double_pct}
    jobs = jobs or min(16, os.cpu_count() or 1)
    res = Result()
    t0 = time.perf_counter()
    ctx = model.new()
    try:
        root = _digest(model.key(ctx))
    finally:
        model.close(ctx)
    seen = {root}
    frontier: list[tuple] = [()]
    pool = None
    if jobs > 1:
        pool = mp.get_context('fork').Pool(jobs)
    alpha = model.alphabet()
    try:
        for level in range(1, depth + 1):
            if not frontier:
                res.exhausted = True
                break
            res.frontier_sizes.append(len(frontier))
            nxt: list[tuple] = []
            # seed only permutes work order; verdict/coverage do not depend on it
            order = sorted(frontier, key=lambda h: _digest((seed, h)))
            if pool is not None:
                chunk = max(1, min(64, len(order) // (jobs * 4) or 1))
                it = pool.imap_unordered(_expand, order, chunksize=chunk)
            else:
                it = map(_expand, order)
            for history, outs, err in it:
                if err:
                    res.errors.append(err)
                for ev, key, outcome, term, viols in outs:
                    res.transitions += 1
                    res.outcomes_per_event.setdefault(ev, set()).add(outcome)
                    res.violations.extend(viols)
                    if key not in seen:
                        if len(seen) >= max_states:
                            res.capped = True
                            continue
                        seen.add(key)
                        res.state_histories.append(tuple(history) + (ev,))
                        if not term:
                            nxt.append(tuple(history) + (ev,))
                        if len(res.samples) < 6 and (len(seen) % 97 == 1
                                                     or level == depth):
                            res.samples.append(
                                [alpha[i] for i in tuple(history) + (ev,)])
            frontier = sorted(nxt)
            res.depth_completed = level
            if progress:
                print(f'  level {level}: states={len(seen)} '
                      f'transitions={res.transitions} '
                      f'frontier={len(frontier)} '
                      f'violations={len(res.violations)} '
                      f't={time.perf_counter() - t0:.1f}s', flush=True)
            if res.errors:
                break
            if time_budget is not None and \
                    time.perf_counter() - t0 > time_budget and level < depth:
                res.capped = True
                break
        else:
            if not frontier:
                res.exhausted = True
    finally:
        if pool is not None:
            pool.terminate()
            pool.join()
    res.states = len(seen)
    res.wall = time.perf_counter() - t0
    return res


def run_history(model, history, *, verbose: bool = True):
    """Replay helper: re-execute one history without the explorer."""
    ctx = model.new()
    viols = []
    try:
        for ev in history:
            vs = list(model.apply(ctx, ev))
            if verbose:
                print('EVENT', model.alphabet()[ev])
                model.show_last(ctx)
            viols += vs
        viols += list(model.probe(ctx))
    finally:
        model.close(ctx)
    return viols
