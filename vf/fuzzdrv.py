"""E8 driver: feed raw client bytes to a connection in a given state and
classify what the server did (for C06 / C07 / C18)."""
from __future__ import annotations

import logging
import re
import os
import signal
import traceback

from .loop import StepBudgetExceeded
from .report import Violation
from .worlds import DictWorld
from . import respparse


class Watchdog(BaseException):
    """Raised inside the running code when one execution burns too much CPU
    (a synchronous loop never returns to the event loop)."""


def _alarm(signum, frame):
    raise Watchdog('CPU watchdog: no return to the event loop')


_LITPLUS = re.compile(rb'\{(\d+)\+\}\r?\n')
_LIT = re.compile(rb'\{(\d+)\}\r?\n$')
_TAG = re.compile(rb'^([\x21\x23-\x24\x26-\x27\x2c-\x5b\x5d-\x7a\x7c\x7e]+) ')


def pymap_site(exc) -> str:
    """exception class + innermost pymap function (mechanical signature)."""
    tb = exc.__traceback__
    site = '?'
    for fs in traceback.extract_tb(tb):
        if '/pymap/' in fs.filename or '/pysasl/' in fs.filename:
            site = f'{fs.filename.split("/pymap/")[-1]}:{fs.name}'
    return f'{type(exc).__name__}@{site}'


class _SieveLogTap(logging.Handler):
    def __init__(self) -> None:
        super().__init__()
        self.records = []

    def emit(self, record):
        if record.exc_info and record.exc_info[1] is not None:
            self.records.append(record.exc_info[1])


_tap = None


def sieve_tap():
    global _tap
    if _tap is None:
        _tap = _SieveLogTap()
        lg = logging.getLogger('pymap.sieve.manage')
        lg.addHandler(_tap)
        lg.setLevel(logging.ERROR)
        lg.propagate = False
    return _tap


class LineRunner:
    """Keeps a world with a victim connection in ``state`` and an idle
    bystander; rebuilds when the victim's state or the data changed."""

    def __init__(self, state: str, proto: str = 'imap', *, cpu_s: float = 5.0,
                 setup=None, world_kw=None, select=b'SELECT INBOX',
                 post=None, backend: str = 'dict') -> None:
        self.backend = backend     # 'dict' | '++' | 'fs' (maildir layouts)
        self.state = state
        self.proto = proto
        self.cpu_s = cpu_s
        self.setup = setup
        self.world_kw = world_kw or {}
        self.select = select
        self.post = post          # commands another session runs afterwards
        self.w = None
        self.rebuilds = 0
        self.lines = 0
        signal.signal(signal.SIGALRM, _alarm)

    # ---- world -------------------------------------------------------------
    def build(self):
        self.drop()
        if self.backend == 'dict':
            kw = dict(demo_data=True, users={}, bad_command_limit=None)
            kw.update(self.world_kw)
            w = DictWorld(**kw)
        else:
            w = self._maildir_world()
        self.w = w
        self.rebuilds += 1
        self.v = w.connect(proto=self.proto)
        if self.proto == 'imap':
            self.by = w.connect()
            w.cmd(self.by, b'LOGIN demouser demopass')
            w.cmd(self.by, b'SELECT Sent')
            if self.state in ('auth', 'selected'):
                tag, d, rs = w.cmd(self.v, b'LOGIN demouser demopass')
                assert rs and rs[-1].name == 'OK', d
            if self.setup:
                self.setup(w, self.v)
            if self.state == 'selected':
                tag, d, rs = w.cmd(self.v, self.select)
                assert rs and rs[-1].name == 'OK', d
                if self.post:
                    o = w.connect()
                    w.cmd(o, b'LOGIN demouser demopass')
                    for line in self.post:
                        w.cmd(o, line)
                    self.other = o
        else:
            self.by = w.connect(proto='sieve')
            if self.state in ('auth', 'selected'):
                import base64
                w.send(self.v, b'AUTHENTICATE "PLAIN" "' + base64.b64encode(
                    b'\0demouser\0demopass') + b'"\r\n')
        self.sig0 = self.signature()

    _md_templates: dict = {}
    _live_md = None

    def _maildir_world(self):
        """A copy of a prepared store: user demouser, INBOX with 4 messages
        (flags as in the demo data), Sent (1 message), Trash."""
        import shutil
        from . import fsjail
        from .worlds import MaildirWorld, scratch_root
        users = {'demouser': ('demopass', ())}
        # one maildir world per process at a time (the jail, the temporary
        # directory and the clock base are process-wide)
        other = LineRunner._live_md
        if other is not None and other is not self:
            other.drop()
        LineRunner._live_md = self
        t = LineRunner._md_templates.get(self.backend)
        if t is None:
            w = MaildirWorld(layout=self.backend, users=users,
                             jail_cheap=True, bad_command_limit=None)
            s = w.connect()
            w.cmd(s, b'LOGIN demouser demopass')
            for box in (b'Sent', b'Trash'):
                w.cmd(s, b'CREATE ' + box)
            body = (b'From: friend@example.com\r\nTo: me@example.com\r\n'
                    b'Subject: question %d\r\nDate: Mon, 1 Jan 2018 00:00:00 '
                    b'+0000\r\nContent-Type: text/plain\r\n\r\nDo you know '
                    b'that?\r\n')
            for i, fl in enumerate((b'(\\Seen)', b'(\\Answered \\Seen)',
                                    b'(\\Flagged)', b'()')):
                m = body % i
                w.cmd(s, b'APPEND INBOX ' + fl + b' {%d+}\r\n%s' % (len(m), m))
            m = body % 9
            w.cmd(s, b'APPEND Sent {%d+}\r\n%s' % (len(m), m))
            w.cmd(s, b'SELECT INBOX')
            w.cmd(s, b'LOGOUT')
            w.own_root = False
            w.close()
            t = LineRunner._md_templates[self.backend] = w.root
        with fsjail.unjailed():
            root = scratch_root()
            shutil.rmtree(root)
            shutil.copytree(t, root, symlinks=True)
        w = MaildirWorld(layout=self.backend, users=users, root=root,
                         reuse=True, jail_cheap=True, bad_command_limit=None)
        w.own_root = True
        return w

    def drop(self):
        if self.w is not None:
            try:
                self.w.close()
            except BaseException:
                pass
            self.w = None

    def signature(self):
        from .checks.c05 import observed_control
        w = self.w
        if self.backend != 'dict':
            # real files: names and sizes of everything in the user's store
            from . import fsjail
            ent = []
            base = w.user_dir('demouser')
            with fsjail.unjailed():
                for d, ds, fs_ in os.walk(base):
                    ds.sort()
                    for f in sorted(fs_):
                        if f.endswith('.lock'):
                            continue
                        pth = os.path.join(d, f)
                        try:
                            ent.append((os.path.relpath(pth, base),
                                        os.path.getsize(pth)))
                        except OSError:
                            pass
                    if not fs_ and not ds:
                        ent.append((os.path.relpath(d, base), -1))
            return (observed_control(self.v), tuple(ent))
        if self.proto != 'imap':
            fs = w.filter_set('demouser')
            return (self.v.done, None if fs is None else
                    (tuple(sorted(fs._filters)), fs._active))
        stores = []
        for user in sorted(w.config.set_cache):
            mset, _ = w.config.set_cache[user]
            for name, mbx in [('INBOX', mset._inbox)] + sorted(mset._set.items()):
                stores.append((name, mbx._max_uid, tuple(
                    (u, tuple(sorted(bytes(f) for f in m.permanent_flags)))
                    for u, m in sorted(mbx._messages.items()))))
        return (observed_control(self.v), tuple(stores))

    # ---- one input ---------------------------------------------------------
    def _pump(self, data: bytes):
        v = self.v
        signal.setitimer(signal.ITIMER_REAL, self.cpu_s)
        try:
            v.conn.feed(data)
            self.w.loop.run_until_quiescent(max_handles=50000, horizon=0.0)
            return None
        except StepBudgetExceeded as exc:
            return ('hang-steps', str(exc))
        except Watchdog as exc:
            return ('hang-cpu', _where())
        finally:
            signal.setitimer(signal.ITIMER_REAL, 0)

    def run(self, raw: bytes, *, label: str = '', keep: bool = False) -> dict:
        """Feed ``raw`` (complete lines).  Returns dict(kind, out, problems:
        [(rule, site, msg)], responses)."""
        if self.w is None or self.v.done:
            self.build()
        self.lines += 1
        v = self.v
        probs = []
        n0 = len(v.raw)
        r0 = len(v.responses)
        tap = sieve_tap() if self.proto != 'imap' else None
        if tap:
            tap.records.clear()
        hang = self._pump(raw)
        rounds = 0
        kind = None
        pending = list(_LITPLUS.finditer(raw))
        while True:
            v.pull()
            out = bytes(v.raw[n0:])
            if hang:
                probs.append((hang[0], hang[1], f'input {raw!r:.120}'))
                kind = 'hang'
                break
            # a Watchdog inside a task surfaces as the task's exception
            exc = v.task_exception() if v.done else None
            if isinstance(exc, Watchdog):
                probs.append(('hang-cpu', _where_exc(exc),
                              f'input {raw!r:.120}'))
                kind = 'hang'
                break
            if b'[SERVERBUG]' in out or (exc is not None):
                site = pymap_site(exc) if exc is not None else 'no-exception'
                probs.append(('serverbug', site,
                              f'input {raw!r:.120} -> {out[-160:]!r}'))
            # (a ManageSieve 'NO "Server error."' is an answer, not an
            # internal-error BYE: informational only)
            if v.done:
                kind = 'closed'
                said_bye = (b'* BYE' in out) if self.proto == 'imap' \
                    else (b'BYE' in out or out.startswith(b'OK'))
                if not said_bye:
                    probs.append(('closed-without-bye',
                                  'exception' if exc else 'clean',
                                  f'input {raw!r:.120} -> {out[-120:]!r}'))
                break
            if out and not out.endswith(b'\n'):
                probs.append(('torn-output', 'mid-line',
                              f'input {raw!r:.120} -> {out[-80:]!r}'))
            new = v.responses[r0:]
            done_resp = self._completed(raw, new, out)
            if done_resp:
                kind = done_resp
                break
            rounds += 1
            if rounds > 6:
                probs.append(('no-completion', 'rounds',
                              f'input {raw!r:.120} -> {out[-120:]!r}'))
                kind = 'stuck'
                break
            # continuation requested?
            if self._wants_more(new, out):
                ans = self._answer(raw, out)
                hang = self._pump(ans)
                continue
            if v.conn.waiting:
                # legitimately awaiting announced literal bytes?
                m = _LITPLUS.search(raw) or _LITPLUS.search(out)
                if v.conn.read_mode[0] == 'exact':
                    need = v.conn.read_mode[1] - len(v.conn.inbuf)
                    if need > 3_000_000:
                        # the client announced more than it will ever send:
                        # the server is legitimately waiting
                        kind = 'awaiting-huge-literal'
                        hang = ('x', 'x')
                        probs_keep = list(probs)
                        self.drop()
                        return {'kind': kind, 'out': out, 'problems':
                                probs_keep, 'responses': v.responses[r0:],
                                'parse_error': v.parse_error}
                    hang = self._pump(b'x' * max(need, 0) + b'\r\n')
                    kind = 'awaiting-literal'
                    continue
                if kind == 'awaiting-literal' or m:
                    hang = self._pump(b'\r\n')
                    kind = None
                    continue
                if not raw.endswith(b'\n'):
                    kind = 'awaiting-line'
                    break
                probs.append(('no-response', 'silent',
                              f'input {raw!r:.120} produced no completion: '
                              f'{out[-100:]!r}'))
                kind = 'silent'
                break
            probs.append(('no-completion', 'not-waiting',
                          f'input {raw!r:.120} -> {out[-120:]!r}'))
            kind = 'stuck'
            break
        # others are still served
        if self.proto == 'imap' and not hang:
            by = self.by
            b0 = len(by.raw)
            try:
                signal.setitimer(signal.ITIMER_REAL, self.cpu_s)
                tag, d, rs = self.w.cmd(by, b'NOOP')
                # any tagged answer means the bystander is being served
                ok = any(r.kind == 'tagged' for r in rs)
            except BaseException as exc:    # noqa
                ok = False
            finally:
                signal.setitimer(signal.ITIMER_REAL, 0)
            if not ok:
                probs.append(('bystander-starved', 'NOOP',
                              f'after {raw!r:.100} the bystander got '
                              f'{bytes(by.raw[b0:])!r:.100}'))
        out = bytes(v.raw[n0:])
        res = {'kind': kind, 'out': out, 'problems': probs,
               'responses': v.responses[r0:], 'base': n0,
               'parse_error': v.parse_error}
        # reuse or rebuild
        if kind in ('hang',) or v.done or hang:
            self.drop()
        elif not keep:
            try:
                if self.signature() != self.sig0:
                    self.drop()
            except BaseException:
                self.drop()
        return res

    def _completed(self, raw, new, out):
        if self.proto != 'imap':
            if any(r[0] == 'status' for r in new):
                return 'status'
            if self.v.parse_error is not None and \
                    self.v.parse_error.kind == 'grammar' and \
                    re.search(rb'(^|\n)(OK|NO|BYE)\b', out):
                return 'status'
            return None
        m = _TAG.match(raw)
        tag = m.group(1) if m else None
        for r in new:
            if r.kind == 'tagged' and (tag is None or r.tag == tag):
                return 'tagged'
            if r.kind == 'untagged' and r.name == 'BAD':
                return 'untagged-bad'
        # unparsable output: fall back on the raw text
        if self.v.parse_error is not None and \
                self.v.parse_error.kind == 'grammar':
            if tag and re.search(rb'(^|\n)' + re.escape(tag) +
                                 rb' (OK|NO|BAD)', out):
                return 'tagged'
            if b'* BAD' in out:
                return 'untagged-bad'
        return None

    def _wants_more(self, new, out):
        if self.proto == 'imap':
            if new and new[-1].kind == 'cont':
                return True
            if any(r.kind == 'cont' and r.text == b'Idling.' for r in new):
                return True       # updates may follow '+ Idling.' at once
            return out.endswith(b'\r\n') and out.rsplit(b'\r\n', 2)[-2:-1] \
                and out.rsplit(b'\r\n', 2)[-2].startswith(b'+')
        return bool(new) and new[-1][0] == 'data' and not any(
            r[0] == 'status' for r in new)

    answers: list = []      # scripted answers to continuation requests

    def _answer(self, raw, out):
        if self.answers:
            return self.answers.pop(0)
        up = raw.upper()
        if self.proto != 'imap':
            return b'"*"\r\n'
        if b'AUTHENTICATE' in up:
            return b'*\r\n'
        if b'IDLE' in up and b'Idling' in out:
            return b'DONE\r\n'
        m = _LIT.search(raw)
        n = int(m.group(1)) if m else 0
        n = min(n, 5_000_000)
        return b'x' * n + b'\r\n'


def _where() -> str:
    import sys
    tb = sys.exc_info()[2]
    site = '?'
    for fs in traceback.extract_tb(tb):
        if '/pymap/' in fs.filename:
            site = f'{fs.filename.split("/pymap/")[-1]}:{fs.name}'
    return site


def _where_exc(exc) -> str:
    site = '?'
    for fs in traceback.extract_tb(exc.__traceback__):
        if '/pymap/' in fs.filename:
            site = f'{fs.filename.split("/pymap/")[-1]}:{fs.name}'
    return site
