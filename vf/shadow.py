"""The client the properties talk about: applies untagged data in order and
holds (count, slot -> (uid?, flags?)).  Also enforces the transcript-only
rules of C01."""
from __future__ import annotations


class Slot:
    __slots__ = ('uid', 'flags')

    def __init__(self, uid=None, flags=None) -> None:
        self.uid = uid
        self.flags = flags

    def key(self):
        return (self.uid, None if self.flags is None
                else tuple(sorted(self.flags)))


class Shadow:
    def __init__(self) -> None:
        self.selected = False
        self.slots: list[Slot] = []
        self.recent_count = None
        self.problems: list[tuple[str, str]] = []   # (rule, message)
        self._cmd = None     # (verb, uid_variant)
        self.selecting = False
        self.bye = False
        self.uidnext = None
        self.uidvalidity = None
        self.readonly = None
        self._saved = (False, [], None, None)

    # ---- command framing ------------------------------------------------
    def begin(self, verb: str, uid: bool = False) -> None:
        self._cmd = (verb.upper(), uid)
        if verb.upper() in ('SELECT', 'EXAMINE'):
            # RFC 3501 6.3.1: the current selection is dropped first (a
            # syntactically refused SELECT -- tagged BAD -- never ran, so the
            # previous selection is restored in end())
            self._saved = (self.selected, self.slots, self.recent_count,
                           self.readonly)
            self.selected = False
            self.slots = []
            self.selecting = True
            self.recent_count = None

    def end(self, resp) -> None:
        """Tagged completion of the current command."""
        verb = self._cmd[0] if self._cmd else None
        if self.selecting:
            self.selecting = False
            if resp.name == 'OK':
                self.selected = True
                self.readonly = (resp.code == b'READ-ONLY')
            elif resp.name == 'BAD' and not self.slots:
                (self.selected, self.slots, self.recent_count,
                 self.readonly) = self._saved
            else:
                self.selected = False
                self.slots = []
        elif verb == 'CLOSE' and resp.name == 'OK':
            self.selected = False
            self.slots = []
        elif verb == 'LOGOUT':
            self.selected = False
        self._cmd = None

    # ---- untagged data --------------------------------------------------
    def _bad(self, rule: str, msg: str) -> None:
        self.problems.append((rule, msg))

    def apply(self, r) -> None:
        if r.kind != 'untagged':
            return
        n = r.name
        if n == 'BYE':
            self.bye = True
            return
        if n == 'OK':
            if r.code == b'UIDNEXT':
                self.uidnext = r.code_arg
            elif r.code == b'UIDVALIDITY':
                self.uidvalidity = r.code_arg
            return
        if n == 'EXISTS':
            if not (self.selected or self.selecting):
                self._bad('exists-unselected', f'EXISTS {r.num} with no selection')
                return
            if r.num < len(self.slots):
                self._bad('exists-shrinks',
                          f'EXISTS {r.num} but client holds {len(self.slots)}')
                del self.slots[r.num:]
            while len(self.slots) < r.num:
                self.slots.append(Slot())
        elif n == 'RECENT':
            self.recent_count = r.num
        elif n == 'EXPUNGE':
            if not self.selected:
                self._bad('expunge-unselected',
                          f'EXPUNGE {r.num} with no selection')
                return
            if self._cmd and self._cmd[0] in ('FETCH', 'STORE', 'SEARCH') \
                    and not self._cmd[1]:
                self._bad('expunge-during-nonuid',
                          f'EXPUNGE {r.num} while answering non-UID '
                          f'{self._cmd[0]}')
            if not (1 <= r.num <= len(self.slots)):
                self._bad('expunge-range',
                          f'EXPUNGE {r.num} outside 1..{len(self.slots)}')
                return
            del self.slots[r.num - 1]
        elif n == 'FETCH':
            if not self.selected:
                self._bad('fetch-unselected',
                          f'FETCH {r.num} with no selection')
                return
            if not (1 <= r.num <= len(self.slots)):
                self._bad('fetch-range',
                          f'FETCH {r.num} outside 1..{len(self.slots)}')
                return
            slot = self.slots[r.num - 1]
            d = r.data
            if 'UID' in d:
                if slot.uid is not None and slot.uid != d['UID']:
                    self._bad('uid-remap',
                              f'seq {r.num} was UID {slot.uid}, '
                              f'now reported as UID {d["UID"]}')
                slot.uid = d['UID']
            if 'FLAGS' in d:
                slot.flags = frozenset(f.lower() for f in d['FLAGS'])

    def check_order(self) -> None:
        last = 0
        for i, s in enumerate(self.slots, 1):
            if s.uid is not None:
                if s.uid <= last:
                    self._bad('uid-order',
                              f'UID {s.uid} at seq {i} not above {last}')
                last = s.uid

    # ---- views ------------------------------------------------------------
    @property
    def count(self) -> int:
        return len(self.slots)

    def uids(self):
        return [s.uid for s in self.slots]

    def key(self):
        return (self.selected, tuple(s.key() for s in self.slots),
                self.recent_count)

    def take_problems(self):
        p = self.problems
        self.problems = []
        return p
