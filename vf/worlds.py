"""E3 -- worlds: a fresh backend + server + connections in a fresh VLoop.

All nondeterminism that pymap consults is owned here: time.time, datetime.now,
the random module, the FQDN, GC timing (disabled; explicit collection at
teardown), WeakSet iteration order in pymap.selected (insertion ordered).
"""
from __future__ import annotations

import gc
import logging
import os
import random
import sys
import time as _time_mod
import weakref
from argparse import Namespace
from datetime import datetime as _real_datetime

os.environ.setdefault('FQDN', 'verif.example')

from .loop import VLoop, StepBudgetExceeded  # noqa: E402
from .wire import Conn  # noqa: E402
from . import respparse  # noqa: E402

logging.getLogger('asyncio').setLevel(logging.CRITICAL)
logging.getLogger('pymap').setLevel(logging.CRITICAL)

BASE_TIME = 1_700_000_000.0

_current_loop: VLoop | None = None
_real_time = _time_mod.time


TIME_BASE = BASE_TIME


def _virtual_time() -> float:
    lp = _current_loop
    if lp is None:
        return TIME_BASE
    return TIME_BASE + lp._vtime


import threading as _threading  # noqa: E402
_thread_skew = _threading.local()


def set_thread_skew(seconds: float) -> None:
    """E7: server threads/processes never read the very same microsecond
    from the clock; mailbox.Maildir builds its unique file names from it."""
    _thread_skew.v = seconds


class _MailboxTime:
    """Stands in for the ``time`` module inside the stdlib ``mailbox``."""

    def __getattr__(self, name):
        return getattr(_time_mod, name)

    @staticmethod
    def time() -> float:
        return _virtual_time() + getattr(_thread_skew, 'v', 0.0)


class _VDatetime(_real_datetime):
    @classmethod
    def now(cls, tz=None):
        return _real_datetime.fromtimestamp(_virtual_time(), tz)


class OrderedWeakSet:
    """Insertion-ordered weak set; stands in for weakref.WeakSet in
    pymap.selected so that SelectedSet.any_selected does not depend on object
    addresses.  ``rotate`` is the explicit explorer choice of which live
    member is met first."""

    rotation = 0   # class-level, owned by the harness

    def __init__(self) -> None:
        self._refs: list[weakref.ref] = []

    def _live(self):
        out = []
        keep = []
        for r in self._refs:
            o = r()
            if o is not None:
                out.append(o)
                keep.append(r)
        self._refs = keep
        return out

    def add(self, item) -> None:
        for o in self._live():
            if o is item:
                return
        self._refs.append(weakref.ref(item))

    def discard(self, item) -> None:
        self._refs = [r for r in self._refs
                      if r() is not None and r() is not item]

    def __iter__(self):
        live = self._live()
        if live and OrderedWeakSet.rotation:
            k = OrderedWeakSet.rotation % len(live)
            live = live[k:] + live[:k]
        return iter(live)

    def __len__(self) -> int:
        return len(self._live())

    def __contains__(self, item) -> bool:
        return any(o is item for o in self._live())


_installed = False
_closed_worlds = 0
CAPTURED_STATES: list = []


def install_seams() -> None:
    """Process-wide, idempotent: rebinding of the names pymap reads."""
    global _installed
    if _installed:
        return
    _installed = True
    gc.disable()
    _time_mod.time = _virtual_time
    import mailbox as _mailbox
    _mailbox.time = _MailboxTime()
    import pymap.selected as sel
    sel.WeakSet = OrderedWeakSet
    import pymap.backend.dict.mailbox as dmb
    dmb.datetime = _VDatetime
    try:
        import pymap.backend.maildir.mailbox as mmb
        mmb.datetime = _VDatetime
    except Exception:  # pragma: no cover
        pass
    # pysasl re-scans the installed packages' entry points for every
    # SASLAuth.defaults() call, i.e. for every connection (3-12 ms of metadata
    # file reads).  The result only depends on what is installed: memoise the
    # (name, class) pairs; mechanism objects are still created per call.
    import pysasl
    from importlib.metadata import entry_points as _eps
    _cache: list = []

    def _get_builtin(cls):
        if not _cache:
            group = pysasl.mechanism.__package__
            _cache.extend((ep.name, ep.load()) for ep in _eps(group=group))
        for name, mech_cls in _cache:
            yield mech_cls(name)
    pysasl.SASLAuth._get_builtin_mechanisms = classmethod(_get_builtin)
    from pymap.imap.state import ConnectionState
    orig_init = ConnectionState.__init__

    def init(self, *a, **kw):
        orig_init(self, *a, **kw)
        CAPTURED_STATES.append(self)
    ConnectionState.__init__ = init


class Args(Namespace):
    debug = False
    demo_data = False
    demo_user = 'demouser'
    demo_password = 'demopass'

    def __init__(self, **kw) -> None:
        super().__init__()
        self.__dict__.update(kw)

    def __getattr__(self, key: str):
        return None


class Session:
    """Harness-side view of one connection: the Conn, the server task, the
    captured ConnectionState, the parsed transcript."""

    def __init__(self, world, conn: Conn, task, state, proto: str) -> None:
        self.world = world
        self.conn = conn
        self.task = task
        # weak: once the connection task ends, the server's ConnectionState
        # (and its SelectedMailbox) must be freed exactly as in production
        self._state_ref = weakref.ref(state) if state is not None else None
        self.proto = proto
        self.raw = bytearray()        # everything the server ever wrote
        self.parsed_upto = 0
        self.responses: list = []
        self.parse_error = None
        self.tagno = 0

    @property
    def state(self):
        return self._state_ref() if self._state_ref is not None else None

    def pull(self):
        """Move new output into the transcript; returns (new_bytes,
        new_responses)."""
        data = self.conn.take_output()
        self.raw += data
        new = []
        if self.parse_error is None or self.parse_error.kind == 'incomplete':
            if self.proto == 'imap':
                rs, consumed, err = respparse.parse_stream(
                    bytes(self.raw), self.parsed_upto)
            else:
                rs, consumed, err = respparse.parse_sieve_stream(
                    bytes(self.raw), self.parsed_upto)
            self.parsed_upto = consumed
            self.parse_error = err
            self.responses.extend(rs)
            new = rs
        return data, new

    @property
    def done(self) -> bool:
        return self.task.done()

    def task_exception(self):
        if not self.task.done() or self.task.cancelled():
            return None
        return self.task.exception()


class World:
    kind = 'base'

    def __init__(self, seed: int = 0, loop=None) -> None:
        global _current_loop
        install_seams()
        self.seed = seed
        if loop is None:
            random.seed(seed)
            OrderedWeakSet.rotation = 0
        self.loop = loop if loop is not None else VLoop()
        _current_loop = self.loop
        self.sessions: list[Session] = []
        self.closed = False
        self.backend = None
        self.config = None
        self.imap_server = None
        self.sieve_server = None

    # ---- connections -----------------------------------------------------
    def connect(self, *, peer: str = '1.2.3.4', proto: str = 'imap') -> Session:
        from proxyprotocol.sock import SocketInfoLocal
        cid = len(self.sessions)
        conn = Conn(self.loop, cid, peer=peer)
        n0 = len(CAPTURED_STATES)
        server = self.imap_server if proto == 'imap' else self.sieve_server
        task = self.loop.spawn(server(conn, conn, SocketInfoLocal(conn)))
        self.loop.run_until_quiescent(horizon=0.0)
        state = CAPTURED_STATES[n0] if len(CAPTURED_STATES) > n0 else None
        del CAPTURED_STATES[n0:]
        s = Session(self, conn, task, state, proto)
        self.sessions.append(s)
        s.pull()
        return s

    def send(self, s: Session, data: bytes, *, max_handles: int = 20000,
             horizon: float | None = 0.0):
        """Default environment: bytes arrive when the server is quiescent and
        everything runs until quiescent again."""
        s.conn.feed(data)
        self.loop.run_until_quiescent(max_handles=max_handles,
                                      horizon=horizon)
        return s.pull()

    def cmd(self, s: Session, line: bytes, **kw):
        """Send one tagged command line (tag generated); returns
        (tag, new_bytes, new_responses)."""
        s.tagno += 1
        tag = b'%c%d' % (ord('a') + s.conn.cid, s.tagno)
        data, rs = self.send(s, tag + b' ' + line + b'\r\n', **kw)
        return tag, data, rs

    # ---- teardown --------------------------------------------------------
    def close(self) -> None:
        global _current_loop
        if self.closed:
            return
        self.closed = True
        for s in self.sessions:
            if not s.task.done():
                s.conn.release_drain()
                s.conn.eof()
        try:
            self.loop.run_until_quiescent(max_handles=5000, horizon=2.0)
        except StepBudgetExceeded:
            pass
        for s in self.sessions:
            if not s.task.done():
                s.task.cancel()
        try:
            self.loop.run_until_quiescent(max_handles=5000, horizon=0.0)
        except StepBudgetExceeded:
            pass
        for s in self.sessions:
            if s.task.done() and not s.task.cancelled():
                s.task.exception()      # mark retrieved
        self.loop.shutdown()
        if _current_loop is self.loop:
            _current_loop = None
        self._teardown()
        # the cyclic collector is off while worlds run (its timing must not
        # influence weak sets or "exception never retrieved" reports); the
        # garbage of finished worlds is collected here, between executions
        global _closed_worlds
        _closed_worlds += 1
        if _closed_worlds % 25 == 0:
            gc.collect()

    def _teardown(self) -> None:
        pass


_HASH = None


def _hash_context():
    global _HASH
    if _HASH is None:
        from pysasl.hashing import BuiltinHash
        _HASH = BuiltinHash(hash_name='sha1', salt_len=0, rounds=1)
    return _HASH


_pw_cache: dict = {}


class DictWorld(World):
    kind = 'dict'

    def __init__(self, *, users=None, demo_data: bool = False,
                 tls_enabled: bool = False, seed: int = 0,
                 bad_command_limit: int | None = 5, hash_context=None,
                 **overrides) -> None:
        super().__init__(seed)
        from pymap.backend.dict import DictBackend
        from pymap.concurrent import Subsystem
        from pymap.imap import IMAPServer
        from pymap.sieve.manage import ManageSieveServer
        from pymap.user import UserMetadata
        users = users if users is not None else {'alice': ('pw', ())}
        args = Args(demo_data=demo_data, tls=tls_enabled)
        if demo_data:
            args.demo_data = 'pymap.backend.dict'
        hc = hash_context if hash_context is not None else _hash_context()
        self.backend, self.config = self.loop.run_coro(DictBackend.init(
            args, hash_context=hc, invalid_user_sleep=0.0,
            cpu_subsystem=Subsystem.for_asyncio(),
            bad_command_limit=bad_command_limit, **overrides))
        login = self.backend.login
        for name, (pw, roles) in users.items():
            key = (pw, type(hc).__name__)
            if key not in _pw_cache:
                _pw_cache[key] = hc.hash(self.config.password_prep(pw))
            login.users_dict[name] = UserMetadata(
                self.config, name, password=_pw_cache[key],
                roles=frozenset(roles))
        self.users = users
        self.imap_server = IMAPServer(login, self.config)
        self.sieve_server = ManageSieveServer(login, self.config)

    def mailbox_set(self, user: str):
        ent = self.config.set_cache.get(user)
        return ent[0] if ent else None

    def filter_set(self, user: str):
        ent = self.config.set_cache.get(user)
        return ent[1] if ent else None


def collect_garbage() -> None:
    gc.collect()


# ---------------------------------------------------------------------------
# maildir

_scratch_n = 0


def scratch_root() -> str:
    import tempfile
    global _scratch_n
    base = os.environ.get('VERIF_SCRATCH')
    if not base:
        base = '/dev/shm' if os.path.isdir('/dev/shm') else None
    _scratch_n += 1
    return tempfile.mkdtemp(prefix=f'verif-{os.getpid()}-{_scratch_n}-',
                            dir=base)


class MaildirWorld(World):
    """Maildir backend built by hand with the asyncio subsystem, on a private
    directory nested inside a scratch root, always under the E6 jail."""
    kind = 'maildir'

    def __init__(self, *, layout: str = '++', users=None, seed: int = 0,
                 root: str | None = None, reuse: bool = False,
                 time_offset: float = 0.0, tmp_other_fs: bool = False,
                 bad_command_limit: int | None = 5,
                 jail_cheap: bool = False, loop=None, jail=None) -> None:
        super().__init__(seed, loop)
        from . import fsjail
        import tempfile
        from pymap.backend.maildir import MaildirBackend, Config, Login, \
            Identity
        from pymap.concurrent import Subsystem
        from pymap.imap import IMAPServer
        from pymap.sieve.manage import ManageSieveServer
        from pymap.user import UserMetadata
        global TIME_BASE
        # mailbox.Maildir numbers its files with a process-wide counter; the
        # directory listing is sorted by name (Q10 < Q9): start every world
        # from the same count so that a replayed history sees the same order
        import mailbox as _mb
        _mb.Maildir._count = 1
        self.own_root = root is None
        self.root = root or scratch_root()
        self.base_dir = os.path.join(self.root, 'nest', 'a', 'b', 'base')
        self.tmp_dir = os.path.join(self.root, 'tmp')
        if not reuse:
            os.makedirs(self.base_dir, exist_ok=True)
            os.makedirs(self.tmp_dir, exist_ok=True)
        self._saved_tempdir = tempfile.tempdir
        tempfile.tempdir = self.tmp_dir
        # maildir compares the clock with real file mtimes
        self._saved_time_base = TIME_BASE
        TIME_BASE = _real_time() + time_offset
        self.own_jail = jail is None
        if jail is None:
            self.jail = fsjail.Jail(self.root, cheap=jail_cheap)
            self.jail.__enter__()
        else:
            self.jail = jail
        self.tmp_other_fs = tmp_other_fs
        users = users if users is not None else {'alice': ('pw', ())}
        self.users = users
        cfg = Config(Args(), base_dir=self.base_dir, layout=layout, colon=None,
                     host=None, port=143, subsystem=Subsystem.for_asyncio(),
                     cpu_subsystem=Subsystem.for_asyncio(),
                     hash_context=_hash_context(), invalid_user_sleep=0.0,
                     tls_enabled=False, bad_command_limit=bad_command_limit)
        self.config = cfg
        login = Login(cfg)
        self.backend = MaildirBackend(login, cfg)
        if not reuse:
            for name, (pw, roles) in users.items():
                h = _hash_context().hash(cfg.password_prep(pw))
                ident = Identity(cfg, login.tokens, name, None, {'admin'})
                self.loop.run_coro(ident.set(UserMetadata(
                    cfg, name, password=h, roles=frozenset(roles))),
                    horizon=30.0)
        self.imap_server = IMAPServer(login, cfg)
        self.sieve_server = ManageSieveServer(login, cfg)

    def user_dir(self, user: str) -> str:
        return os.path.join(self.base_dir, user)

    def _teardown(self) -> None:
        global TIME_BASE
        import tempfile
        import shutil
        from . import fsjail
        if self.own_jail:
            self.jail.__exit__()
        tempfile.tempdir = self._saved_tempdir
        TIME_BASE = self._saved_time_base
        if self.own_root:
            with fsjail.unjailed():
                shutil.rmtree(self.root, ignore_errors=True)


class scratch_parent:
    """Context manager used by a check's run(): every scratch root created
    by this process *and its forked workers* lives under one directory that is
    removed at the end, whatever the workers leaked."""

    def __enter__(self):
        import tempfile
        base = os.environ.get('VERIF_SCRATCH')
        if not base:
            base = '/dev/shm' if os.path.isdir('/dev/shm') else None
        self.saved = os.environ.get('VERIF_SCRATCH')
        self.path = tempfile.mkdtemp(prefix=f'verifrun-{os.getpid()}-',
                                     dir=base)
        os.environ['VERIF_SCRATCH'] = self.path
        return self.path

    def __exit__(self, *a):
        import shutil
        if self.saved is None:
            os.environ.pop('VERIF_SCRATCH', None)
        else:
            os.environ['VERIF_SCRATCH'] = self.saved
        shutil.rmtree(self.path, ignore_errors=True)
