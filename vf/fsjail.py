"""E6 -- filesystem interposer: call log, jail, crash points, fault injection.

Installed in the harness process only (wraps names in ``os`` / ``builtins`` /
``shutil``).  A mutating call whose resolved target lies outside the scratch
root is NOT executed: it is recorded and PermissionError is raised."""
from __future__ import annotations

import builtins
import errno
import io
import os
import shutil

_ORIG = {}
_ACTIVE = None          # the active Jail or None

MUTATING = {'rename', 'replace', 'link', 'symlink', 'unlink', 'remove',
            'rmdir', 'mkdir', 'makedirs', 'utime', 'open-w', 'rmtree',
            'truncate', 'chmod'}


def _real(p) -> str:
    if isinstance(p, bytes):
        p = os.fsdecode(p)
    if isinstance(p, int):
        return f'<fd {p}>'
    p = os.fspath(p)
    # resolve with the original functions (no logging, no recursion)
    global _ACTIVE
    saved = _ACTIVE
    _ACTIVE = None
    try:
        return os.path.realpath(os.path.abspath(p))
    finally:
        _ACTIVE = saved


def _lexical(p) -> str:
    if isinstance(p, bytes):
        p = os.fsdecode(p)
    if isinstance(p, int):
        return f'<fd {p}>'
    return os.path.abspath(os.fspath(p))


class Refused(PermissionError):
    pass


class Jail:
    def __init__(self, root: str, cheap: bool = False) -> None:
        # cheap: no call log, no realpath (one lstat per path component per
        # call); mutations are still confined by a lexical prefix test.  Used
        # by checks that need the jail only for safety, not as an observer.
        self.cheap = cheap
        self.root = _real(root)
        self.log: list[tuple] = []        # (op, paths..., mutating)
        self.refused: list[tuple] = []
        self.on_boundary = None           # callable(index, op, paths) or None
        self.on_after_open = None         # callable(paths) after a writing open
        self.on_sched = None              # callable(op, paths, mutating): E7
        self.on_done = None               # callable(op, ok) after a mutating call
        self.mut_count = 0
        self.recording = True
        self.sorted_listdir = True
        self.reverse_listdir = False

    def inside(self, rp: str) -> bool:
        return rp == self.root or rp.startswith(self.root + os.sep)

    def note(self, op: str, *paths, mutating: bool):
        sc = self.on_sched
        if sc is not None:
            # E7 scheduling point: before every filesystem call, reads too
            sc(op, paths, mutating)
        if self.cheap:
            if not mutating:
                return ()
            rps = tuple(p if isinstance(p, str) and p.startswith('<fd')
                        else _lexical(p) for p in paths)
        else:
            rps = tuple(_real(p) for p in paths)
        if self.recording:
            self.log.append((op, rps, mutating))
        if mutating:
            for rp in rps:
                if not rp.startswith('<fd') and not self.inside(rp):
                    self.refused.append((op, rps))
                    raise Refused(errno.EACCES,
                                  f'verif jail: {op} outside scratch root',
                                  rp)
            idx = self.mut_count
            self.mut_count += 1
            cb = self.on_boundary
            if cb is not None:
                cb(idx, op, rps)
        return rps

    def __enter__(self):
        global _ACTIVE
        install()
        _ACTIVE = self
        return self

    def __exit__(self, *a):
        global _ACTIVE
        _ACTIVE = None


def _done(j, op, orig, a, kw):
    """Run a mutating call and tell the E7 scheduler whether it changed the
    disk (a failed O_EXCL create or a failed unlink changes nothing)."""
    try:
        res = orig(*a, **kw)
    except BaseException:
        j.on_done(op, False)
        raise
    j.on_done(op, True)
    return res


def _wrap2(name, op):
    orig = getattr(os, name)
    _ORIG[name] = orig

    def f(src, dst, *a, **kw):
        j = _ACTIVE
        if j is not None:
            j.note(op, src, dst, mutating=True)
            if j.on_done is not None:
                return _done(j, op, orig, (src, dst) + a, kw)
        return orig(src, dst, *a, **kw)
    f.__name__ = name
    setattr(os, name, f)


def _wrap1(name, op, mutating):
    orig = getattr(os, name)
    _ORIG[name] = orig

    def f(path, *a, **kw):
        j = _ACTIVE
        if j is not None and not (kw.get('dir_fd') is not None):
            j.note(op, path, mutating=mutating)
            if mutating and j.on_done is not None:
                return _done(j, op, orig, (path,) + a, kw)
        return orig(path, *a, **kw)
    f.__name__ = name
    setattr(os, name, f)


_installed = False


def install():
    global _installed
    if _installed:
        return
    _installed = True
    for n in ('rename', 'replace', 'link', 'symlink'):
        _wrap2(n, n)
    for n in ('unlink', 'remove', 'rmdir', 'mkdir', 'makedirs', 'utime',
              'truncate', 'chmod'):
        _wrap1(n, n, True)
    for n in ('stat', 'lstat'):
        _wrap1(n, n, False)
    orig_listdir = os.listdir
    _ORIG['listdir'] = orig_listdir

    def listdir(path='.'):
        j = _ACTIVE
        res = orig_listdir(path)
        if j is not None:
            j.note('listdir', path, mutating=False)
            if j.sorted_listdir:
                res = sorted(res, reverse=j.reverse_listdir)
        return res
    os.listdir = listdir
    orig_scandir = os.scandir
    _ORIG['scandir'] = orig_scandir

    def scandir(path='.'):
        j = _ACTIVE
        if j is not None and not isinstance(path, int):
            j.note('scandir', path, mutating=False)
            entries = sorted(orig_scandir(path), key=lambda e: e.name,
                             reverse=j.reverse_listdir)

            class _It:
                def __init__(s, es):
                    s.es = iter(es)

                def __iter__(s):
                    return s

                def __next__(s):
                    return next(s.es)

                def __enter__(s):
                    return s

                def __exit__(s, *a):
                    return False

                def close(s):
                    pass
            return _It(entries)
        return orig_scandir(path)
    os.scandir = scandir
    orig_open = builtins.open
    _ORIG['open'] = orig_open

    def open_(file, mode='r', *a, **kw):
        j = _ACTIVE
        if j is not None and not isinstance(file, int):
            w = any(c in mode for c in 'wax+')
            rps = j.note('open-w' if w else 'open-r', file, mutating=w)
            if w and j.on_done is not None:
                fh = _done(j, 'open-w', orig_open, (file, mode) + a, kw)
            else:
                fh = orig_open(file, mode, *a, **kw)
            if w and j.on_after_open is not None:
                # a truncating / creating open changes the disk at once; the
                # data only arrives at close: this state is a crash point
                j.on_after_open(rps)
            return fh
        return orig_open(file, mode, *a, **kw)
    builtins.open = open_
    io.open = open_
    orig_os_open = os.open
    _ORIG['os.open'] = orig_os_open

    def os_open(path, flags, *a, **kw):
        j = _ACTIVE
        if j is not None and kw.get('dir_fd') is None:
            w = bool(flags & (os.O_WRONLY | os.O_RDWR | os.O_CREAT |
                              os.O_TRUNC | os.O_APPEND))
            rps = j.note('open-w' if w else 'open-r', path, mutating=w)
            if w and j.on_done is not None:
                fd = _done(j, 'open-w', orig_os_open, (path, flags) + a, kw)
            else:
                fd = orig_os_open(path, flags, *a, **kw)
            if w and j.on_after_open is not None:
                j.on_after_open(rps)
            return fd
        return orig_os_open(path, flags, *a, **kw)
    os.open = os_open
    orig_rmtree = shutil.rmtree
    _ORIG['rmtree'] = orig_rmtree

    def rmtree(path, *a, **kw):
        global _ACTIVE
        j = _ACTIVE
        if j is not None:
            j.note('rmtree', path, mutating=True)
            _ACTIVE = None
            try:
                return orig_rmtree(path, *a, **kw)
            finally:
                _ACTIVE = j
        return orig_rmtree(path, *a, **kw)
    shutil.rmtree = rmtree


def unjailed():
    """Context manager: harness-side filesystem work (snapshots, cleanup)."""
    class _U:
        def __enter__(s):
            global _ACTIVE
            s.saved = _ACTIVE
            _ACTIVE = None

        def __exit__(s, *a):
            global _ACTIVE
            _ACTIVE = s.saved
    return _U()
