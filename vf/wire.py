"""E2 -- duck-typed stream reader/writer + the client side of a connection."""
from __future__ import annotations

import asyncio
import socket
from typing import Any


class _Sock:
    def __init__(self, fd: int, family=socket.AF_INET) -> None:
        self.fd = fd
        self.family = family

    def fileno(self) -> int:
        return self.fd


class Conn:
    """One object that is the StreamReader, the StreamWriter and the peer.

    Server side (what pymap calls): readline, readexactly, at_eof, write,
    drain, close, get_extra_info, start_tls.
    Client side (what the harness calls): feed, eof, reset, gate_drain,
    release_drain, take_output.
    """

    def __init__(self, loop, cid: int, *, peer: str = '1.2.3.4') -> None:
        self.loop = loop
        self.cid = cid
        self.inbuf = bytearray()
        self.out = bytearray()
        self.out_total = 0
        self.dropped = bytearray()
        self.closed = False
        self.eof_flag = False
        self.reset_flag = False
        self.tls = False
        self.tls_started = 0
        self._waiter: asyncio.Future | None = None
        self._drain_waiter: asyncio.Future | None = None
        self.drain_gated = False
        self.drains = 0
        self.peer = (peer, 40000 + cid)
        self.sock = _Sock(100 + cid)
        self.read_mode: tuple = ('none',)

    # ---- reader API ------------------------------------------------------
    async def _wait(self) -> None:
        assert self._waiter is None, 'two readers on one connection'
        self._waiter = self.loop.create_future()
        try:
            await self._waiter
        finally:
            self._waiter = None

    async def readline(self) -> bytes:
        while True:
            i = self.inbuf.find(b'\n')
            if i >= 0:
                line = bytes(self.inbuf[:i + 1])
                del self.inbuf[:i + 1]
                self.read_mode = ('none',)
                return line
            if self.reset_flag:
                raise ConnectionResetError('reset by peer')
            if self.eof_flag:
                line = bytes(self.inbuf)
                self.inbuf.clear()
                return line
            self.read_mode = ('line',)
            await self._wait()

    async def readexactly(self, n: int) -> bytes:
        while True:
            if len(self.inbuf) >= n:
                data = bytes(self.inbuf[:n])
                del self.inbuf[:n]
                self.read_mode = ('none',)
                return data
            if self.reset_flag:
                raise ConnectionResetError('reset by peer')
            if self.eof_flag:
                partial = bytes(self.inbuf)
                self.inbuf.clear()
                raise asyncio.IncompleteReadError(partial, n)
            self.read_mode = ('exact', n)
            await self._wait()

    async def read(self, n: int = -1) -> bytes:
        """StreamReader.read: up to n bytes, whatever is buffered; waits only
        while nothing at all is available."""
        if n == 0:
            return b''
        while True:
            if self.inbuf and n > 0:
                data = bytes(self.inbuf[:n])
                del self.inbuf[:n]
                self.read_mode = ('none',)
                return data
            if self.reset_flag:
                raise ConnectionResetError('reset by peer')
            if self.eof_flag:
                data = bytes(self.inbuf)
                self.inbuf.clear()
                return data
            self.read_mode = ('some',)
            await self._wait()

    def at_eof(self) -> bool:
        return self.eof_flag and not self.inbuf

    @property
    def waiting(self) -> bool:
        """True when the server side is suspended in a read on this conn."""
        return self._waiter is not None and not self._waiter.done()

    # ---- writer API ------------------------------------------------------
    def write(self, data) -> None:
        if self.closed or self.reset_flag:
            # what the server tried to say after the peer was gone
            self.dropped += bytes(data)
            return
        data = bytes(data)
        self.out += data
        self.out_total += len(data)

    def writelines(self, parts) -> None:
        for p in parts:
            self.write(p)

    async def drain(self) -> None:
        self.drains += 1
        if self.reset_flag:
            raise ConnectionResetError('reset by peer')
        if self.drain_gated:
            self._drain_waiter = self.loop.create_future()
            try:
                await self._drain_waiter
            finally:
                self._drain_waiter = None
            if self.reset_flag:
                raise ConnectionResetError('reset by peer')

    def close(self) -> None:
        self.closed = True

    def is_closing(self) -> bool:
        return self.closed

    async def wait_closed(self) -> None:
        return None

    def get_extra_info(self, name: str, default: Any = None) -> Any:
        if name == 'socket':
            return self.sock
        if name == 'peername':
            return self.peer
        if name == 'sockname':
            return ('5.6.7.8', 143)
        return default

    async def start_tls(self, ssl_context, **kw) -> None:
        self.tls = True
        self.tls_started += 1

    # ---- client side -----------------------------------------------------
    def _wake(self) -> None:
        w = self._waiter
        if w is not None and not w.done():
            w.set_result(None)

    def feed(self, data: bytes) -> None:
        self.inbuf += data
        self._wake()

    def eof(self) -> None:
        self.eof_flag = True
        self._wake()

    def reset(self) -> None:
        self.reset_flag = True
        self._wake()
        d = self._drain_waiter
        if d is not None and not d.done():
            d.set_result(None)

    def gate_drain(self) -> None:
        self.drain_gated = True

    def release_drain(self) -> None:
        self.drain_gated = False
        d = self._drain_waiter
        if d is not None and not d.done():
            d.set_result(None)

    @property
    def drain_blocked(self) -> bool:
        return self._drain_waiter is not None and not self._drain_waiter.done()

    def take_output(self) -> bytes:
        data = bytes(self.out)
        self.out.clear()
        return data
