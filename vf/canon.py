"""Canonical state keys (glass-box) for explicit-state search.

The key is identity on everything the code can branch on, except:
 (i)  modification sequences are replaced by their rank among the values that
      are alive (non-empty log entries, session cursors, highest): the code
      uses them only through <, ==, dict keys, bisect on the ordered list and
      highest+1 (always a fresh maximum) -- order-isomorphic logs have
      identical futures;
 (ii) random object ids / UIDVALIDITY are replaced by first-occurrence indices
      in a deterministic traversal: the code only compares them for equality.
"""
from __future__ import annotations


class IdMap:
    def __init__(self) -> None:
        self.m: dict = {}

    def __call__(self, v):
        if v is None:
            return None
        k = bytes(v) if not isinstance(v, int) else v
        r = self.m.get(k)
        if r is None:
            r = self.m[k] = len(self.m)
        return r


def _flags(fs) -> tuple:
    return tuple(sorted(bytes(f).lower() for f in fs))


def run_state_frame(task):
    """Find the frame of IMAPConnection._run_state below a connection task."""
    coro = task.get_coro() if not task.done() else None
    seen = 0
    while coro is not None and seen < 50:
        seen += 1
        frame = getattr(coro, 'cr_frame', None) or \
            getattr(coro, 'gi_frame', None)
        if frame is not None and frame.f_code.co_name == '_run_state':
            return frame
        coro = getattr(coro, 'cr_await', None) or \
            getattr(coro, 'gi_yieldfrom', None)
    return None


def bad_commands(task):
    fr = run_state_frame(task)
    if fr is None:
        return None
    return fr.f_locals.get('bad_commands')


def suspended_in(task) -> tuple:
    """Names of the coroutine chain a connection task is suspended in (what
    it is waiting for: a command line, a literal, an auth response, DONE)."""
    if task.done():
        return ('done',)
    names = []
    coro = task.get_coro()
    n = 0
    while coro is not None and n < 50:
        n += 1
        frame = getattr(coro, 'cr_frame', None) or \
            getattr(coro, 'gi_frame', None)
        if frame is None:
            break
        names.append(frame.f_code.co_name)
        coro = getattr(coro, 'cr_await', None) or \
            getattr(coro, 'gi_yieldfrom', None)
    keep = [x for x in names if x in (
        'read_command', 'read_continuation', 'authenticate', 'idle',
        'read_idle_done', 'readexactly', 'readline', '_interrupt',
        'write_response', 'drain', 'handle_updates', 'start_tls')]
    return tuple(keep)


def modseq_ranker(mbx, cursors):
    ms = mbx._mod_sequences
    vals = {ms._highest}
    for seq in ms._mod_seqs_order:
        if ms._updates.get(seq) or ms._expunges.get(seq):
            vals.add(seq)
    for c in cursors:
        if c is not None:
            vals.add(c)
    order = {v: i for i, v in enumerate(sorted(vals))}
    return order


def dict_mailbox_key(mbx, ids: IdMap, cursors=()):
    rank = modseq_ranker(mbx, cursors)
    ms = mbx._mod_sequences
    msgs = []
    for uid in sorted(mbx._messages):
        m = mbx._messages[uid]
        msgs.append((uid, _flags(m.permanent_flags), bool(m.recent),
                     ids(m.email_id), ids(m.thread_id),
                     m.internal_date.isoformat() if m.internal_date else None))
    log = []
    for seq in ms._mod_seqs_order:
        u = ms._updates.get(seq)
        e = ms._expunges.get(seq)
        if u or e:
            log.append((rank[seq], tuple(sorted(u or ())),
                        tuple(sorted(e or ()))))
    return (ids(mbx.mailbox_id), ids(('uv', mbx.uid_validity).__repr__().encode()),
            mbx._readonly, mbx._max_uid, tuple(msgs), tuple(log),
            rank[ms._highest], rank)


def selected_key(sel, ids: IdMap, rank) -> tuple:
    if sel is None:
        return None
    msgs = sel._messages
    sf = sel._session_flags
    prev = sel._prev
    pk = None
    if prev is not None:
        pk = (prev.is_deleted, tuple(sorted(prev.uids)),
              tuple(sorted((u, _flags(f)) for u, f in prev.flags)),
              tuple(sorted(prev.recent)),
              tuple(sorted((u, _flags(f)) for u, f in prev.sflags)),
              tuple(sorted(prev.seqs_cache.items())))
    ms = sel._mod_sequence
    return (sel._lookup, ids(sel._mailbox_id), sel._readonly,
            sel._hide_expunged, sel._is_deleted,
            None if ms is None else (rank.get(ms, ('raw', ms))
                                     if rank is not None else ms),
            tuple(msgs._sorted), tuple(sorted(msgs._uids)),
            tuple(sorted(msgs._seqs_cache.items())),
            tuple(sorted((u, _flags(k[1])) for u, k in
                         msgs._flags_key_map.items())),
            tuple(sorted((u, _flags(m.permanent_flags),
                          bool(getattr(m, 'expunged', False)))
                         for u, m in msgs._cache.items())),
            tuple(sorted(msgs._pending_remove)),
            tuple(sorted(sf._recent)),
            tuple(sorted((u, _flags(f)) for u, f in sf._flags.items())),
            tuple(sorted((u, _flags(f)) for u, f in sel._silenced_flags)),
            tuple(sorted((u, _flags(f)) for u, f in sel._silenced_sflags)),
            pk)


def dict_world_key(world, shadows=None, extra=()) -> tuple:
    """Canonical key of a DictWorld (all users' stores + all connections)."""
    ids = IdMap()
    # cursors per mailbox object
    cursors: dict[int, list] = {}
    sels = []
    for s in world.sessions:
        st = s.state
        sel = st._selected if st is not None else None
        sels.append(sel)
    stores = []
    mbx_by_id: dict = {}
    for user in sorted(world.config.set_cache):
        mset, fset = world.config.set_cache[user]
        boxes = [('INBOX', mset._inbox)] + sorted(mset._set.items())
        for name, mbx in boxes:
            mbx_by_id[bytes(mbx.mailbox_id)] = mbx
    for sel in sels:
        if sel is not None:
            cursors.setdefault(bytes(sel._mailbox_id), []).append(
                sel._mod_sequence)
    ranks: dict = {}
    for user in sorted(world.config.set_cache):
        mset, fset = world.config.set_cache[user]
        boxes = [('INBOX', mset._inbox)] + sorted(mset._set.items())
        bk = []
        for name, mbx in boxes:
            mid = bytes(mbx.mailbox_id)
            k = dict_mailbox_key(mbx, ids, cursors.get(mid, ()))
            ranks[mid] = k[-1]
            live = tuple(
                (idx, ) for idx, sel in enumerate(sels)
                if sel is not None and any(o is sel for o in
                                           mbx._selected_set._set))
            bk.append((name, k[:-1], live))
        subs = tuple(sorted((n, bool(v)) for n, v in mset._subscribed.items()))
        filt = None
        if fset is not None:
            filt = (tuple(sorted((n, bytes(v)) for n, v in
                          getattr(fset, '_filters', {}).items())),
                    getattr(fset, '_active', None))
        stores.append((user, tuple(bk), subs, filt))
    conns = []
    for idx, s in enumerate(world.sessions):
        st = s.state
        if st is None:
            conns.append((idx, 'nostate', s.done))
            continue
        sess = st._session
        sel = st._selected
        rank = ranks.get(bytes(sel._mailbox_id)) if sel is not None else None
        from .canon import bad_commands as _bc, suspended_in as _si
        conns.append((
            idx, s.done, s.conn.closed, s.conn.tls,
            None if sess is None else sess.owner,
            tuple(st._capability),
            tuple(sorted(m.name for m in st.auth.server_mechanisms)),
            _bc(s.task), _si(s.task),
            selected_key(sel, ids, rank),
            shadows[idx].key() if shadows is not None else None))
    return (tuple(stores), tuple(conns), tuple(extra))
