"""E1 -- iteration-faithful virtual event loop.

A subclass of asyncio.BaseEventLoop that has no selector and a virtual clock.
One *step* is one faithful loop iteration (BaseEventLoop._run_once semantics):
timers that are due are moved to the ready queue, then exactly the handles that
were ready at the start of the iteration are run.  External events (bytes
readable, connection reset, timer advance, cancellation) are injected by the
driver *between* steps, which is the only place a real selector loop can
observe them.
"""
from __future__ import annotations

import asyncio
import heapq
import sys
from asyncio import events


class StepBudgetExceeded(Exception):
    pass


class VLoop(asyncio.BaseEventLoop):

    def __init__(self) -> None:
        super().__init__()
        self._vtime = 0.0
        self.unhandled: list[dict] = []
        self.handles_run = 0
        self.iterations = 0
        self.set_exception_handler(self._on_exc)

    # -- BaseEventLoop plumbing -------------------------------------------
    def time(self) -> float:
        return self._vtime

    def _process_events(self, event_list) -> None:  # pragma: no cover
        pass

    def _write_to_self(self) -> None:
        pass

    def _on_exc(self, loop, context) -> None:
        self.unhandled.append(context)

    def run_in_executor(self, executor, func, *args):
        """No real threads under the virtual loop: work handed to an
        executor runs as a separate loop iteration (a genuine suspension
        point for the caller, completing at the next iteration -- the default
        environment answer)."""
        fut = self.create_future()

        def _run() -> None:
            if fut.cancelled():
                return
            try:
                res = func(*args)
            except BaseException as exc:   # noqa: BLE001
                fut.set_exception(exc)
            else:
                fut.set_result(res)
        self.call_soon(_run)
        return fut

    # -- stepping ----------------------------------------------------------
    def _move_due_timers(self) -> None:
        sched = self._scheduled
        while sched and (sched[0]._cancelled or sched[0]._when <= self._vtime):
            h = heapq.heappop(sched)
            h._scheduled = False
            if h._cancelled:
                continue
            self._ready.append(h)

    def step(self) -> int:
        """Run one loop iteration; returns the number of handles run."""
        self._move_due_timers()
        n = len(self._ready)
        ran = 0
        old_hooks = sys.get_asyncgen_hooks()
        sys.set_asyncgen_hooks(firstiter=self._asyncgen_firstiter_hook,
                               finalizer=self._asyncgen_finalizer_hook)
        events._set_running_loop(self)
        try:
            for _ in range(n):
                h = self._ready.popleft()
                if h._cancelled:
                    continue
                h._run()
                ran += 1
        finally:
            events._set_running_loop(None)
            sys.set_asyncgen_hooks(*old_hooks)
        self.handles_run += ran
        self.iterations += 1
        return ran

    @property
    def has_ready(self) -> bool:
        return bool(self._ready)

    def next_timer(self) -> float | None:
        sched = self._scheduled
        while sched and sched[0]._cancelled:
            h = heapq.heappop(sched)
            h._scheduled = False
        return sched[0]._when if sched else None

    def advance_to_next_timer(self) -> bool:
        when = self.next_timer()
        if when is None:
            return False
        if when > self._vtime:
            self._vtime = when
        self._move_due_timers()
        return True

    def run_until_quiescent(self, *, max_handles: int = 20000,
                            timers: bool = True,
                            horizon: float | None = None) -> None:
        """Step until nothing is ready.  With ``timers`` the clock is advanced
        to the next deadline when nothing else is runnable (never beyond
        ``horizon`` seconds of virtual time from now)."""
        limit = None if horizon is None else self._vtime + horizon
        start = self.handles_run
        while True:
            self._move_due_timers()
            if not self._ready:
                if not timers:
                    return
                when = self.next_timer()
                if when is None:
                    return
                if limit is not None and when > limit:
                    return
                if horizon is None and when > self._vtime + 3600.0:
                    return
                self._vtime = max(self._vtime, when)
                continue
            self.step()
            if self.handles_run - start > max_handles:
                raise StepBudgetExceeded(
                    f'more than {max_handles} handles without quiescence')

    # -- helpers -----------------------------------------------------------
    def spawn(self, coro) -> asyncio.Task:
        events._set_running_loop(self)
        try:
            return self.create_task(coro)
        finally:
            events._set_running_loop(None)

    def run_coro(self, coro, **kw):
        """Run a coroutine to completion on this loop (setup helper)."""
        task = self.spawn(coro)
        self.run_until_quiescent(**kw)
        if not task.done():
            raise RuntimeError('coroutine did not finish: %r' % (task,))
        return task.result()

    def shutdown(self) -> None:
        try:
            self.run_until_quiescent(max_handles=5000, horizon=0.0)
        except StepBudgetExceeded:
            pass
        self._ready.clear()
        self._scheduled.clear()
        if not self.is_closed():
            self.close()


class SharedVLoop(VLoop):
    """A VLoop whose clock is a cell shared with other loops (E7: several
    server processes over one filesystem live in the same virtual time)."""

    def __init__(self, clock: list) -> None:
        self._clock = clock
        super().__init__()

    @property
    def _vtime(self) -> float:
        return self._clock[0]

    @_vtime.setter
    def _vtime(self, v: float) -> None:
        if v > self._clock[0]:
            self._clock[0] = v
