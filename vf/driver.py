"""Shared driving layer for IMAP models: send a command on a session, answer
continuations, parse, feed the shadow client, record the step."""
from __future__ import annotations

import re

from .loop import StepBudgetExceeded
from .refmodel import seqset as _seqset
from .shadow import Shadow
from .report import Violation


class Step:
    __slots__ = ('si', 'tag', 'sent', 'raw', 'responses', 'tagged', 'conts',
                 'closed', 'hang', 'task_exc', 'verb', 'uid', 'search_view')

    def __init__(self, si, tag, sent) -> None:
        self.si = si
        self.tag = tag
        self.sent = sent
        self.raw = b''
        self.responses = []
        self.tagged = None
        self.conts = 0
        self.closed = False
        self.hang = None
        self.task_exc = None
        self.verb = None
        self.uid = False
        self.search_view = None

    @property
    def cond(self):
        return self.tagged.name if self.tagged is not None else None

    def untagged(self, name):
        return [r for r in self.responses
                if r.kind == 'untagged' and r.name == name]

    def summary(self):
        return (self.cond,
                None if self.tagged is None else self.tagged.code,
                tuple((r.name, r.num) for r in self.responses
                      if r.kind == 'untagged'),
                self.closed)


def verb_of(line: bytes):
    parts = line.split(None, 2)
    if not parts:
        return ('', False)
    v = parts[0].upper().decode('latin1')
    if v == 'UID' and len(parts) > 1:
        return (parts[1].upper().decode('latin1'), True)
    return (v, False)


_SILENT_RE = re.compile(
    rb'^(UID\s+)?STORE\s+(\S+)\s+([+-]?)FLAGS\.SILENT\s+\(?([^)]*)\)?\s*$',
    re.I)


def apply_silent_store(sh, line: bytes, pre_slots) -> None:
    """A client that sent STORE ... .SILENT and got OK assumes the change on
    the messages it addressed (by its own view when it sent the command)."""
    m = _SILENT_RE.match(line)
    if not m:
        return
    uid, spec, op, flags = m.groups()
    fl = frozenset(f.lower() for f in flags.split())
    fl -= {b'\\recent'}
    try:
        if uid:
            known = [s.uid for s in pre_slots if s.uid is not None]
            mx = max(known) if known else 0
            mem = _seqset.members(spec, mx)
            targets = [s for s in pre_slots if s.uid in mem]
        else:
            mem = _seqset.members(spec, len(pre_slots))
            targets = [s for i, s in enumerate(pre_slots, 1) if i in mem]
    except ValueError:
        return
    for slot in targets:
        if slot.flags is None:
            continue
        keep = slot.flags & {b'\\recent'}
        cur = slot.flags - keep
        if op == b'+':
            cur = cur | fl
        elif op == b'-':
            cur = cur - fl
        else:
            cur = fl
        slot.flags = frozenset(cur | keep)


class Ctx:
    """A world plus per-session shadows and the step log."""

    def __init__(self, world) -> None:
        self.world = world
        self.shadows: list[Shadow] = []
        self.steps: list[Step] = []
        self.last: Step | None = None
        self.extra: dict = {}
        self.harness_errors: list[str] = []
        self.open_steps: dict[int, Step] = {}

    def more(self, si: int, data: bytes, *, max_handles: int = 20000) -> Step:
        """Continue the open (not yet completed) command of session si, e.g.
        DONE after IDLE or a literal after a continuation request."""
        step = self.open_steps[si]
        s = self.session(si)
        sh = self.shadows[si]
        step.sent.append(data)
        try:
            d, rs = self.world.send(s, data, max_handles=max_handles)
            self._absorb(si, step, d, rs)
        except StepBudgetExceeded as exc:
            step.hang = str(exc)
        if step.tagged is not None:
            sh.end(step.tagged)
            del self.open_steps[si]
        step.closed = s.conn.closed or s.done
        if s.done:
            step.task_exc = s.task_exception()
            self.open_steps.pop(si, None)
        sh.check_order()
        self.extra['unsolicited'] = self.pull_all(skip=si)
        self.last = step
        return step

    def connect(self, **kw):
        s = self.world.connect(**kw)
        self.shadows.append(Shadow())
        return len(self.world.sessions) - 1

    def session(self, si):
        return self.world.sessions[si]

    def _absorb(self, si, step: Step, data, rs) -> None:
        sh = self.shadows[si]
        step.raw += data
        for r in rs:
            step.responses.append(r)
            if r.kind == 'tagged' and r.tag == step.tag:
                step.tagged = r
            elif r.kind == 'untagged':
                if r.name == 'SEARCH':
                    step.search_view = (sh.count, list(sh.uids()))
                sh.apply(r)
        s = self.session(si)
        if s.parse_error is not None and s.parse_error.kind == 'grammar':
            self.harness_errors.append(
                f'session {si}: unparseable server output: {s.parse_error}')

    def pull_all(self, skip=None):
        """Absorb unsolicited output on every session (e.g. IDLE pushes)."""
        got = {}
        for si, s in enumerate(self.world.sessions):
            if si == skip:
                continue
            data, rs = s.pull()
            if data:
                for r in rs:
                    if r.kind == 'untagged':
                        self.shadows[si].apply(r)
                got[si] = (data, rs)
        return got

    def do(self, si: int, line: bytes, conts=(), *, tag: bytes | None = None,
           max_handles: int = 20000) -> Step:
        """One command: line (without tag / CRLF), then each continuation
        chunk in ``conts`` is sent iff the server asked for more ('+')."""
        w = self.world
        s = self.session(si)
        s.tagno += 1
        if tag is None:
            tag = b'%c%d' % (ord('a') + si, s.tagno)
        step = Step(si, tag, [line] + list(conts))
        step.verb, step.uid = verb_of(line)
        sh = self.shadows[si]
        sh.begin(step.verb, step.uid)
        pre_slots = list(sh.slots)
        try:
            data, rs = w.send(s, tag + b' ' + line + b'\r\n',
                              max_handles=max_handles)
            self._absorb(si, step, data, rs)
            for chunk in conts:
                if step.tagged is not None or s.done:
                    break
                if not any(r.kind == 'cont' for r in step.responses[-8:]):
                    break
                step.conts += 1
                data, rs = w.send(s, chunk, max_handles=max_handles)
                self._absorb(si, step, data, rs)
        except StepBudgetExceeded as exc:
            step.hang = str(exc)
        if step.tagged is not None:
            sh.end(step.tagged)
            if step.verb == 'STORE' and step.cond == 'OK' \
                    and b'.SILENT' in line.upper():
                apply_silent_store(sh, line, pre_slots)
        elif not s.done and step.hang is None:
            self.open_steps[si] = step
        step.closed = s.conn.closed or s.done
        if s.done:
            step.task_exc = s.task_exception()
        sh.check_order()
        self.extra['unsolicited'] = self.pull_all(skip=si)
        self.steps.append(step)
        self.last = step
        return step

    def shadow_violations(self, prop_rules_prefix='C01'):
        out = []
        for si, sh in enumerate(self.shadows):
            for rule, msg in sh.take_problems():
                verb = self.last.verb if self.last else '?'
                out.append(Violation(
                    f'shadow.{rule}', f'{verb}',
                    f'session {si}: {msg}'))
        return out

    def close(self) -> None:
        self.world.close()

    def show_last(self) -> None:
        st = self.last
        if st is None:
            return
        print(f'  [s{st.si}] C: {st.tag.decode()} ' +
              ' | '.join(x.decode('latin1') for x in st.sent))
        for ln in st.raw.decode('latin1').splitlines():
            print(f'        S: {ln}')
