"""Evidence files, replay artefacts, known findings, exit codes."""
from __future__ import annotations

import hashlib
import json
import os
import sys
import time

ROOT = os.path.dirname(os.path.dirname(os.path.abspath(__file__)))
EVIDENCE_DIR = os.path.join(ROOT, 'evidence')
REPLAY_DIR = os.path.join(ROOT, 'replays')
KNOWN_FILE = os.path.join(ROOT, 'known_findings.json')


def jsonable(o):
    if isinstance(o, bytes):
        try:
            s = o.decode('ascii')
            if s.isprintable() or all(c.isprintable() or c in '\r\n\t'
                                      for c in s):
                return s
        except UnicodeDecodeError:
            pass
        return {'__bytes_latin1__': o.decode('latin1')}
    if isinstance(o, (list, tuple)):
        return [jsonable(x) for x in o]
    if isinstance(o, (set, frozenset)):
        return sorted((jsonable(x) for x in o), key=repr)
    if isinstance(o, dict):
        return {str(k): jsonable(v) for k, v in o.items()}
    if isinstance(o, (str, int, float, bool)) or o is None:
        return o
    return repr(o)


def unjson(o):
    if isinstance(o, dict):
        if '__bytes_latin1__' in o and len(o) == 1:
            return o['__bytes_latin1__'].encode('latin1')
        return {k: unjson(v) for k, v in o.items()}
    if isinstance(o, list):
        return [unjson(x) for x in o]
    return o


class Violation(dict):
    """rule: oracle rule id; site: mechanically derived signature of where
    it happened; msg: human text; replay: dict sufficient to re-execute."""

    def __init__(self, rule: str, site: str, msg: str, replay=None,
                 **extra) -> None:
        super().__init__(rule=rule, site=site, msg=msg, replay=replay, **extra)

    @property
    def sig(self):
        return (self['rule'], self['site'])


def load_known() -> list[dict]:
    if not os.path.exists(KNOWN_FILE):
        return []
    with open(KNOWN_FILE) as f:
        return json.load(f).get('findings', [])


def match_known(prop: str, v: Violation, known=None):
    known = load_known() if known is None else known
    for k in known:
        if k.get('status') != 'known':
            continue
        if k.get('property') != prop:
            continue
        if k.get('rule') == v['rule'] and k.get('site') == v['site']:
            return k
    return None


def write_replay(prop: str, v: Violation) -> str:
    d = os.path.join(REPLAY_DIR, prop)
    os.makedirs(d, exist_ok=True)
    body = json.dumps(jsonable({'property': prop, **v}), indent=1,
                      sort_keys=True)
    sha = hashlib.sha1(body.encode()).hexdigest()[:16]
    path = os.path.join(d, sha + '.json')
    with open(path, 'w') as f:
        f.write(body)
    return path


def finish(prop: str, *, tier: str, seed: int, level: str, coverage: dict,
           violations: list, assumptions: list[str], t0: float,
           max_report: int = 25) -> int:
    """Dedupe by signature, split known / new, print, write evidence."""
    max_report = int(os.environ.get('VERIF_MAX_REPORT', max_report))
    known = load_known()
    by_sig: dict = {}
    for v in violations:
        cur = by_sig.get(v.sig)
        if cur is None or len(json.dumps(jsonable(v.get('replay')))) < \
                len(json.dumps(jsonable(cur.get('replay')))):
            by_sig[v.sig] = v
    new = []
    matched = {}
    for sig, v in sorted(by_sig.items()):
        k = match_known(prop, v, known)
        if k is not None:
            matched[sig] = (k, v)
        else:
            new.append(v)
    for sig, (k, v) in matched.items():
        print(f"KNOWN-FINDING: property={prop} rule={sig[0]} site={sig[1]} "
              f"-- {k.get('description', '')}")
    for v in new[:max_report]:
        path = write_replay(prop, v)
        print(f"VIOLATION property={prop} replay={path}")
        print(f"    rule={v['rule']} site={v['site']}: {v['msg']}")
    if len(new) > max_report:
        print(f"    ... and {len(new) - max_report} more distinct "
              f"violation signatures")
    ev = {
        'property_id': prop,
        'tier': tier,
        'seed': seed,
        'level': level,
        'coverage': jsonable(coverage),
        'assumptions': assumptions,
        'wall_s': round(time.time() - t0, 3) if t0 > 1e9
        else round(time.perf_counter() - t0, 3),
        'violations': len(new),
        'known_findings_matched': [
            {'rule': s[0], 'site': s[1]} for s in matched],
        'raw_violation_count': len(violations),
    }
    if os.environ.get('VERIF_NO_EVIDENCE'):
        # development runs against deliberately broken trees
        sys.stdout.flush()
        return 1 if new else 0
    os.makedirs(EVIDENCE_DIR, exist_ok=True)
    with open(os.path.join(EVIDENCE_DIR, prop + '.json'), 'w') as f:
        json.dump(ev, f, indent=1, sort_keys=True)
        f.write('\n')
    sys.stdout.flush()
    return 1 if new else 0
