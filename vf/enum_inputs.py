"""E8 -- bounded-exhaustive input generators (complete up to a stated size).
Alphabets are ordered simplest-first."""
from __future__ import annotations

import itertools

RAW_ALPHABET = [b'a', b' ', b'"', b'\\', b'(', b')', b'{', b'}', b'+', b'1',
                b'*', b'&', b'-', b'\x00', b'\x80', b'\r']


def raw_strings(max_len: int, alphabet=RAW_ALPHABET):
    for n in range(0, max_len + 1):
        for combo in itertools.product(alphabet, repeat=n):
            yield b''.join(combo)


MSG = b'From: a@b\r\nSubject: t\r\n\r\nhello\r\n'


def lit(data: bytes, plus=True, binary=False) -> bytes:
    return b'%s{%d%s}\r\n%s' % (b'~' if binary else b'', len(data),
                                b'+' if plus else b'', data)


DEEP_PAREN = b'(' * 1100 + b')' * 1100
DEEP_OR = b'OR ALL ' * 600 + b'ALL'
DEEP_NOT = b'NOT ' * 600 + b'ALL'
DEEP_SEARCH_PAREN = b'(' * 1100 + b'ALL' + b')' * 1100

# more digits than the interpreter converts to an int by default (4300)
BIGNUM = b'1' * 5000

DOM = {
    'mbx': [b'INBOX', b'Sent', b'&', b'&AOk', b'&A-', b'&AOk-', b'\xe9',
            b'"a\\"b"', b'""', lit(b'a\nb'), b'{3}', b'a*', b'%', b'a' * 300,
            b'inbox', lit(b'abc', binary=True), b'"unterminated', b'a/b',
            b'Missing', b'&-', b'&AAA', b'&,,,,-', b'a&b', b'~', b'/', b'.',
            b'..', b'\x00', lit(b'\x00'), lit(b'\xff\xfe'), b'&2D3eAA-',
            b'&2D0-', b'&2AA-', b'&3AA-', b'&2ADYAA-'],
    'pat': [b'*', b'%', b'""', b'&', b'\xe9', b'"a\\"', b'*' * 50,
            b'%*%*%*%*%*%*%*%*a', lit(b'*'), b'(', b'&AOk'],
    'set': [b'1', b'1:*', b'*', b'0', b'4294967296', b'9' * 20, b'1,', b':',
            b'1:', b'2:1', b'1,2,3', b'$', b'-1', b'1:2:3', b'*:*', b',',
            b'1' + b',1' * 2000, b'', BIGNUM, b'1:' + BIGNUM],
    'fetchatt': [b'FLAGS', b'UID', b'INTERNALDATE', b'RFC822.SIZE',
                 b'ENVELOPE', b'BODY', b'BODYSTRUCTURE', b'BODY[]',
                 b'BODY.PEEK[]', b'BODY[HEADER]', b'BODY[TEXT]', b'BODY[1]',
                 b'BODY[1.MIME]', b'BODY[1.HEADER]', b'BODY[1.TEXT]',
                 b'BODY[HEADER.FIELDS (From To)]',
                 b'BODY[HEADER.FIELDS.NOT (From)]', b'BODY[]<0.5>',
                 b'RFC822', b'RFC822.HEADER', b'RFC822.TEXT', b'BINARY[]',
                 b'BINARY.PEEK[1]', b'BINARY.SIZE[1]', b'BINARY.SIZE[]',
                 b'EMAILID', b'THREADID', b'ALL', b'FAST', b'FULL',
                 b'(FLAGS UID BODY[] ENVELOPE BODYSTRUCTURE)',
                 # hostile
                 b'BODY[', b'BODY[]<0.0>', b'BODY[]<1>', b'BODY[1.2.3.4.5.6]',
                 b'BODY[HEADER.FIELDS ()]', b'BODY[HEADER.FIELDS (a b)]',
                 b'(FLAGS', b'()', b'(((((', b'BODY[0]',
                 b'BODY[TEXT]<4294967296.1>', b'BODY[]<0.99999999999999999999>',
                 b'RFC822.PEEK', b'BODY[2]', b'BODY[1.1]', b'BINARY[2]',
                 b'BODY[HEADER.FIELDS ("a\\"b")]',
                 b'BODY[HEADER.FIELDS (' + lit(b'x\ny') + b')]',
                 b'BODY[HEADER.FIELDS (\xe9)]', DEEP_PAREN, b'BOGUS',
                 b'BODY.PEEK', b'(BODY[] BODY[])', b'BODY[MIME]',
                 b'BODY[1.HEADER.FIELDS (a)]', b'BINARY[1]<0.1>',
                 b'BODY[]<0.' + BIGNUM + b'>', b'BODY[]<' + BIGNUM + b'.1>',
                 b'BODY[' + BIGNUM + b']',
                 b'BODY[HEADER.FIELDS (' + lit(b'Subject\n') + b')]',
                 b'BODY[HEADER.FIELDS (' + lit(b'Subject\r') + b')]'],
    'flags': [b'(\\Seen)', b'()', b'(\\Bogus)', b'(\\*)', b'(kw)', b'(\\Seen',
              b'\\Seen', b'("q")', b'((\\Seen))', b'(\\Recent)',
              b'(\\Seen \\Seen)', b'(\xe9)', b'(' + b'k ' * 3000 + b'k)',
              b'(\\)', b'(a"b)'],
    'storeop': [b'FLAGS', b'+FLAGS', b'-FLAGS.SILENT', b'FLAGS.BOGUS',
                b'=FLAGS', b'flags', b'+'],
    'date': [b'"01-Jan-2020 00:00:00 +0000"', b'"32-Jan-2020 00:00:00 +0000"',
             b'"01-Foo-2020 00:00:00 +0000"', b'" 1-Jan-2020 00:00:00 +0000"',
             b'"01-Jan-99999 00:00:00 +0000"', b'"01-Jan-2020 25:61:61 +9999"',
             b'"01-Jan-0000 00:00:00 +0000"', b'"29-Feb-2021 00:00:00 +0000"',
             b'"01-Jan-2020 00:00:00 -2400"', b'"01-Jan-2020"', b'""',
             b'"01-Jan-10000 00:00:00 +0000"', b'"31-Dec-9999 23:59:59 -1200"',
             b'"01-Jan-0001 00:00:00 +1400"'],
    'lit': [lit(MSG), lit(b''), b'{32}', lit(MSG, binary=True),
            b'{1000000001+}\r\n', b'{99999999999999999999+}\r\n',
            b'{' + BIGNUM + b'+}\r\n', b'{' + BIGNUM + b'}',
            lit(b'\x00\xff'), lit(b'\r'), lit(b'a'), b'"quoted"', b'{-1+}\r\n',
            b'{3+}\r\nabcEXTRA', lit(b'Subject: ' + b're: ' * 3000 + b'x\r\n\r\n'),
            lit(b'Date: garbage\r\n\r\n')],
    'charset': [b'US-ASCII', b'UTF-8', b'utf-16', b'undefined', b'bogus',
                b'idna', b'unicode_escape', b'hex', b'zlib', b'utf-7',
                b'punycode', b'rot13', b'base64', b'raw_unicode_escape',
                b'"utf-8"', b'\xe9', b'utf-32', b'cp037', b'mbcs', b'oem'],
    'searchprog': [b'ALL', b'ANSWERED', b'BCC x', b'BEFORE 1-Jan-2020',
                   b'BODY x', b'CC x', b'DELETED', b'DRAFT', b'FLAGGED',
                   b'FROM x', b'HEADER a b', b'KEYWORD k', b'LARGER 1', b'NEW',
                   b'NOT ALL', b'OLD', b'ON 1-Jan-2020', b'OR ALL ALL',
                   b'RECENT', b'SEEN', b'SENTBEFORE 1-Jan-2020',
                   b'SENTON 1-Jan-2020', b'SENTSINCE 1-Jan-2020',
                   b'SINCE 1-Jan-2020', b'SMALLER 1', b'SUBJECT x', b'TEXT x',
                   b'TO x', b'UID 1', b'UNANSWERED', b'UNDELETED', b'UNDRAFT',
                   b'UNFLAGGED', b'UNKEYWORD k', b'UNSEEN', b'1:*',
                   b'(ALL)', b'EMAILID M1', b'THREADID T1',
                   # hostile
                   b'BEFORE 99-Jan-2020', b'BEFORE 1-Jan-99999',
                   b'LARGER 99999999999999999999', b'LARGER -1', b'HEADER',
                   b'HEADER a', b'OR ALL', b'NOT', b'(', b'()', DEEP_OR,
                   DEEP_NOT, DEEP_SEARCH_PAREN, b'SUBJECT \xe9',
                   b'SUBJECT ' + lit(b'\xe9'), b'SUBJECT "\xff\xfe"',
                   b'KEYWORD \\Seen', b'UID', b'UID *', b'$',
                   b'EMAILID x', b'THREADID', b'BODY ""', b'TEXT ' + lit(b''),
                   b'HEADER "" ""', b'HEADER \xe9 x', b'FROM ' + lit(b'a\x00b'),
                   b'SENTBEFORE 30-Feb-2020', b'ON 1-jan-2020',
                   b'UID 1:*,1:*', b'0', b'MODSEQ 1', b'BOGUS',
                   b'SUBJECT ' + b'x' * 5000, b'OR (ALL) (NOT (ALL))',
                   b'LARGER ' + BIGNUM, b'UID ' + BIGNUM, BIGNUM,
                   # well-formed UTF-8 where the charset admits it
                   b'HEADER "X-\xc3\xa9" x', b'HEADER ' + lit(b'X-\xc3\xa9') +
                   b' x', b'HEADER "\xc3\xa9" "\xc3\xa9"', b'FROM "\xc3\xa9"',
                   b'BODY "\xc3\xa9"', b'TEXT ' + lit(b'\xc3\xa9'),
                   b'KEYWORD ' + lit(b'\xc3\xa9'), b'HEADER a "\xc3\xa9"',
                   b'HEADER "a b" x', b'HEADER "a:" x', b'HEADER "a\\"" x'],
    'idlist': [b'NIL', b'("a" "b")', b'("a")',
               b'(' + b' '.join(b'"k%d" "v"' % i for i in range(61)) + b')',
               b'(a b)', b'("a" NIL)', b'((', b'()', b'nil',
               b'("a" ' + lit(b'x\ny') + b')', b'("' + b'k' * 5000 + b'" "v")'],
    'astr': [b'demouser', b'demopass', b'""', b'"a\\"b"', lit(b'x'), b'{1}',
             b'\xe9', b'&', b'a' * 5000, b'"unterminated', lit(b'\xff\xfe'),
             lit(b'\x00'), b'(', b'NIL', b'*'],
    'statusatt': [b'MESSAGES', b'RECENT UIDNEXT UIDVALIDITY UNSEEN MAILBOXID',
                  b'BOGUS', b'', b'MESSAGES MESSAGES', b'messages', b'(',
                  b'SIZE', b'DELETED', b'HIGHESTMODSEQ'],
    'atom': [b'PLAIN', b'LOGIN', b'BOGUS', b'""', b'{1}', b'\xe9', b'plain',
             b'PLAIN =', b'PLAIN AAAA', b'XOAUTH2', b'PLAIN ' + b'A' * 9000],
}

TEMPLATES = [
    ('selected', b'SELECT {mbx}'), ('selected', b'EXAMINE {mbx}'),
    ('auth', b'CREATE {mbx}'), ('auth', b'DELETE {mbx}'),
    ('auth', b'RENAME {mbx} {mbx}'), ('auth', b'SUBSCRIBE {mbx}'),
    ('auth', b'UNSUBSCRIBE {mbx}'),
    ('auth', b'STATUS {mbx} ({statusatt})'), ('auth', b'LIST {mbx} {pat}'),
    ('auth', b'LSUB {mbx} {pat}'),
    ('selected', b'APPEND {mbx} {flags} {date} {lit}'),
    ('selected', b'APPEND {mbx} {lit}'),
    ('selected', b'APPEND {mbx} {lit} {lit}'),
    ('selected', b'COPY {set} {mbx}'), ('selected', b'MOVE {set} {mbx}'),
    ('selected', b'UID COPY {set} {mbx}'),
    ('selected', b'FETCH {set} {fetchatt}'),
    ('selected', b'UID FETCH {set} {fetchatt}'),
    ('selected', b'STORE {set} {storeop} {flags}'),
    ('selected', b'UID STORE {set} {storeop} {flags}'),
    ('selected', b'SEARCH {searchprog}'),
    ('selected', b'UID SEARCH {searchprog}'),
    ('selected', b'SEARCH CHARSET {charset} {searchprog}'),
    ('selected', b'SEARCH CHARSET UTF-8 {searchprog}'),
    ('selected', b'UID SEARCH CHARSET utf-8 {searchprog} {searchprog}'),
    ('selected', b'SEARCH {searchprog} {searchprog}'),
    ('selected', b'UID EXPUNGE {set}'),
    ('nonauth', b'ID {idlist}'), ('auth', b'ID {idlist}'),
    ('nonauth', b'LOGIN {astr} {astr}'),
    ('nonauth', b'AUTHENTICATE {atom}'),
    ('selected', b'EXPUNGE'), ('selected', b'CLOSE'), ('selected', b'CHECK'),
    ('selected', b'NOOP'), ('nonauth', b'CAPABILITY'), ('nonauth', b'STARTTLS'),
    ('selected', b'IDLE'), ('auth', b'LOGOUT'), ('auth', b'ENABLE CONDSTORE'),
    ('auth', b'NAMESPACE'), ('selected', b'UNSELECT'),
    ('selected', b'SORT (DATE) UTF-8 ALL'), ('selected', b'THREAD x'),
    ('auth', b'GETQUOTAROOT INBOX'),
]


def _slots(t: bytes):
    import re
    return re.findall(rb'\{([a-z]+)\}', t)


def fill(t: bytes, vals):
    import re
    it = iter(vals)
    return re.sub(rb'\{[a-z]+\}', lambda m: next(it), t)


def template_lines(pairs: bool, pair_width: int = 8):
    """Every template with one slot ranging over its whole domain (others at
    their default = first value); with ``pairs`` additionally every pair of
    slots over the first ``pair_width`` values."""
    seen = set()
    for state, t in TEMPLATES:
        slots = [s.decode() for s in _slots(t)]
        defaults = [DOM[s][0] for s in slots]
        combos = [tuple(defaults)]
        for i, s in enumerate(slots):
            for v in DOM[s]:
                c = list(defaults)
                c[i] = v
                combos.append(tuple(c))
        if pairs and len(slots) >= 2:
            for i, j in itertools.combinations(range(len(slots)), 2):
                for vi in DOM[slots[i]][:pair_width * 3:1][-pair_width * 2:]:
                    for vj in DOM[slots[j]][:pair_width * 3][-pair_width * 2:]:
                        c = list(defaults)
                        c[i], c[j] = vi, vj
                        combos.append(tuple(c))
        for c in combos:
            line = fill(t, c)
            if (state, line) not in seen:
                seen.add((state, line))
                yield state, line


MUT_BYTES = [b' ', b'"', b'(', b')', b'{', b'}', b'\\', b'*', b'\x00',
             b'\x80', b'\r', b'&']


def mutations(line: bytes):
    for i in range(len(line) + 1):
        if i < len(line):
            yield line[:i] + line[i + 1:]                 # delete
            yield line[:i] + line[i:i + 1] * 2 + line[i + 1:]   # duplicate
            for b in MUT_BYTES:
                yield line[:i] + b + line[i + 1:]         # replace
        for b in MUT_BYTES[:4]:
            yield line[:i] + b + line[i:]                 # insert


def valid_lines():
    out = []
    for state, t in TEMPLATES:
        slots = [s.decode() for s in _slots(t)]
        out.append((state, fill(t, [DOM[s][0] for s in slots])))
    return out


# ---- message corpus --------------------------------------------------------

TOKENS = [b'A: b', b'Content-Type: text/plain',
          b'Content-Type: multipart/mixed; boundary=B',
          b'Content-Type: message/rfc822', b'--B', b'--B--', b'x', b' ',
          b'\t', b'\r\n', b'\n', b'\r', b'\x00', b'\xff', b'']


def token_messages(k: int):
    seen = set()
    for n in range(0, k + 1):
        for combo in itertools.product(TOKENS[:-1], repeat=n):
            m = b''.join(combo)
            if m not in seen:
                seen.add(m)
                yield m


def nested_mime(depth: int) -> bytes:
    body = b'Content-Type: text/plain\r\n\r\nleaf\r\n'
    for d in range(depth):
        b = b'b%d' % d
        body = (b'Content-Type: multipart/mixed; boundary=' + b + b'\r\n\r\n--'
                + b + b'\r\n' + body + b'\r\n--' + b + b'--\r\n')
    return body


def nested_rfc822(depth: int) -> bytes:
    body = b'Subject: leaf\r\n\r\nleaf\r\n'
    for d in range(depth):
        body = b'Content-Type: message/rfc822\r\n\r\n' + body
    return body


def bomb_messages():
    return [
        b'Date: garbage\r\nSubject: x\r\n\r\nb\r\n',
        b'Subject: ' + b're: ' * 3000 + b'x\r\n\r\nb\r\n',
        b'Subject: ' + b'[t] ' * 3000 + b'x\r\n\r\nb\r\n',
        b'Subject: \xe9\xff\r\nFrom: \xe9 <\xff@x>\r\n\r\n\xe9\r\n',
        b'References: ' + b' '.join(b'<%d@x>' % i for i in range(10000))
        + b'\r\n\r\nb\r\n',
        b'no colon header line\r\n\r\nb\r\n',
        nested_mime(500), nested_mime(30), nested_rfc822(300),
        nested_rfc822(20),
        # deep enough to exhaust the stack while a response is written,
        # not yet while the message is parsed
        nested_mime(250), nested_mime(180), nested_rfc822(150),
        b'Content-Type: multipart/mixed\r\n\r\nno boundary param\r\n',
        b'Content-Type: multipart/mixed; boundary=""\r\n\r\n--\r\nx\r\n----\r\n',
        b'Content-Type: text/plain; charset="\xe9"; name*=utf-8\'\'%E9\r\n\r\nb',
        b'Content-Type: ;;;;\r\n\r\nb', b'Content-Type: text/\r\n\r\nb',
        b'Content-Transfer-Encoding: base64\r\n\r\n!!!notbase64!!!\r\n',
        b'Content-Transfer-Encoding: quoted-printable\r\n\r\n=ZZ=\r\n',
        b'From: (((((((((( <a@b>\r\nTo: a@b, , ,;;;:group:;\r\n\r\nb',
        b'From: ' + b'a' * 70000 + b'@x\r\n\r\nb',
        b'Message-Id: <' + b'x' * 5000 + b'>\r\nIn-Reply-To: \r\n\r\nb',
        b'Date: Thu, 31 Dec 9999 23:59:59 -1200\r\n\r\nb',
        b'Date: Mon, 01 Jan 0001 00:00:00 +1400\r\n\r\nb',
        b'Date: 1 Jan 1970 00:00:00 +9999\r\n\r\nb',
        b'Content-Disposition: attachment; filename="\r\n\r\nb',
        b'Content-Language: \r\nContent-Location: \xff\r\nContent-Id: \x00\r\n\r\nb',
        b'Subject: =?utf-8?b?!!!!?= =?bogus?q?x?= =?utf-8?q?=0A?=\r\n\r\nb',
        b'Subject: a\r\n b\r\n\tc\r\n\r\nb', b'\r\n', b'', b'\r\n\r\n',
        b'A: b', b'A: b\r\n', b'A: b\r\n\r\n', b'\x00' * 10, b'\xff' * 10,
        b'A: b\r\n \r\n\r\nbody',
    ]


FETCH_ITEMS = DOM['fetchatt'][:31]
SEARCH_KEYS = DOM['searchprog'][:39]
