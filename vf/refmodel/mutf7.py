"""Independent modified UTF-7 (RFC 3501 5.1.3) codec."""
from __future__ import annotations

import base64


def encode(s: str) -> bytes:
    out = bytearray()
    buf = []

    def flush():
        if buf:
            raw = ''.join(buf).encode('utf-16-be')
            b64 = base64.b64encode(raw).rstrip(b'=').replace(b'/', b',')
            out.extend(b'&' + b64 + b'-')
            buf.clear()
    for ch in s:
        o = ord(ch)
        if 0x20 <= o <= 0x7e:
            flush()
            if ch == '&':
                out.extend(b'&-')
            else:
                out.append(o)
        else:
            buf.append(ch)
    flush()
    return bytes(out)


class DecodeError(ValueError):
    pass


def decode(b: bytes) -> str:
    out = []
    i = 0
    n = len(b)
    while i < n:
        c = b[i]
        if c == 0x26:   # &
            j = b.find(b'-', i + 1)
            if j < 0:
                raise DecodeError('unterminated shift')
            chunk = b[i + 1:j]
            if not chunk:
                out.append('&')
            else:
                pad = b'=' * (-len(chunk) % 4)
                try:
                    raw = base64.b64decode(chunk.replace(b',', b'/') + pad,
                                           validate=True)
                    out.append(raw.decode('utf-16-be'))
                except Exception as exc:
                    raise DecodeError(str(exc)) from exc
            i = j + 1
        else:
            if c < 0x20 or c > 0x7e:
                raise DecodeError('raw byte 0x%02x' % c)
            out.append(chr(c))
            i += 1
    return ''.join(out)


def wire(name: str) -> bytes:
    """Spell a mailbox name for a command: atom if safe, else quoted, else
    literal+."""
    enc = encode(name)
    safe = enc and all(0x21 <= c <= 0x7e and c not in b'(){%*"\\]' for c in enc)
    if safe:
        return enc
    if all(c not in (0x0d, 0x0a, 0x00) and c < 0x80 for c in enc):
        return b'"' + enc.replace(b'\\', b'\\\\').replace(b'"', b'\\"') + b'"'
    return b'{%d+}\r\n%s' % (len(enc), enc)
