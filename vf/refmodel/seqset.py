"""RFC 3501 sequence-set evaluation (independent of pymap)."""
from __future__ import annotations


def parse(spec: bytes):
    """-> list of (lo, hi) with '*' as None; raises ValueError."""
    out = []
    if not spec:
        raise ValueError('empty')
    for part in spec.split(b','):
        if not part:
            raise ValueError('empty element')
        ends = part.split(b':')
        if len(ends) > 2:
            raise ValueError(part)
        vals = []
        for e in ends:
            if e == b'*':
                vals.append(None)
            else:
                if not e.isdigit() or int(e) == 0:
                    raise ValueError(e)
                vals.append(int(e))
        if len(vals) == 1:
            vals = vals * 2
        out.append(tuple(vals))
    return out


def members(spec, maximum: int) -> set[int]:
    """The set of numbers denoted, with '*' = maximum (largest number in use).
    Ranges are unordered pairs (RFC 3501: 2:4 == 4:2)."""
    ranges = parse(spec) if isinstance(spec, (bytes, bytearray)) else spec
    out: set[int] = set()
    for lo, hi in ranges:
        a = maximum if lo is None else lo
        b = maximum if hi is None else hi
        if a > b:
            a, b = b, a
        out.update(range(a, b + 1))
    return out
