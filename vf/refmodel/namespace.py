"""Reference model of the IMAP mailbox namespace (no pymap imports)."""
from __future__ import annotations

DELIM = '/'


def match(pattern: str, name: str, delim: str = DELIM) -> bool:
    """RFC 3501 6.3.8: '*' matches zero or more characters, '%' zero or more
    characters other than the hierarchy delimiter.  Explicit recursive
    matcher (no regex)."""
    memo: dict = {}

    def rec(i: int, j: int) -> bool:
        key = (i, j)
        if key in memo:
            return memo[key]
        if i == len(pattern):
            r = j == len(name)
        else:
            c = pattern[i]
            if c == '*':
                r = any(rec(i + 1, k) for k in range(j, len(name) + 1))
            elif c == '%':
                r = False
                k = j
                while True:
                    if rec(i + 1, k):
                        r = True
                        break
                    if k < len(name) and name[k] != delim:
                        k += 1
                    else:
                        break
            else:
                r = j < len(name) and name[j] == c and rec(i + 1, j + 1)
        memo[key] = r
        return r
    return rec(0, 0)


def match_name(pattern: str, name: str) -> bool:
    """INBOX is case-insensitive (RFC 3501 5.1)."""
    if name == 'INBOX':
        # a pattern matches INBOX if it matches some case variant; wildcards
        # aside this is a case-insensitive comparison
        return match(aupper(pattern), 'INBOX') if not any(
            c.islower() for c in pattern if c not in '*%') \
            else match(_fold_inbox(pattern), 'INBOX')
    return match(pattern, name)


def aupper(s: str) -> str:
    """ASCII-only upper-casing (str.upper() maps a dotless i to I: a name
    spelled with it is not INBOX)."""
    return ''.join(chr(ord(c) - 32) if 'a' <= c <= 'z' else c for c in s)


def is_inbox(name: str) -> bool:
    return aupper(name) == 'INBOX'


def _fold_inbox(p: str) -> str:
    return aupper(p)


def ancestors(name: str):
    parts = name.split(DELIM)
    return [DELIM.join(parts[:k]) for k in range(1, len(parts))]


class Namespace:
    def __init__(self) -> None:
        self.names: set[str] = set()          # besides INBOX
        self.subscribed: set[str] = set()
        self.ident: dict[str, tuple] = {}     # name -> identity tuple

    def exists(self, name: str) -> bool:
        return is_inbox(name) or name in self.names

    def canon(self, name: str) -> str:
        return 'INBOX' if is_inbox(name) else name

    def all_names(self):
        return {'INBOX'} | set(self.names)

    def implied_parents(self):
        out = set()
        for n in self.all_names():
            for a in ancestors(n):
                if not self.exists(a):
                    out.add(a)
        return out

    def inferiors(self, name: str):
        pre = name + DELIM
        return sorted(n for n in self.names if n.startswith(pre))

    def list_expect(self, ref: str, pat: str, subscribed: bool = False):
        """-> (must: set of names that must be listed as selectable,
               may_noselect: names admissible only with \\Noselect)"""
        full = ref + pat
        base = self.subscribed if subscribed else self.all_names()
        must = {n for n in base if match_name(full, n)}
        may = set()
        if not subscribed:
            may = {p for p in self.implied_parents() if match(full, p)}
        else:
            # RFC 3501 6.3.9: a non-subscribed parent of a subscribed name may
            # be returned with \\Noselect for a % pattern
            for n in self.subscribed:
                for a in ancestors(n):
                    if a not in self.subscribed and match(full, a):
                        may.add(a)
        return must, may
