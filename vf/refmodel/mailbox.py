"""Boring reference model of IMAP message commands (no pymap imports).

A store is {name: Box}; a Box is an ascending list of Msg.  Commands are
interpreted against a *view* (the list of UIDs the acting session believes
exist, in order) exactly as RFC 3501 says sequence numbers are."""
from __future__ import annotations

import copy
from . import seqset

SYSTEM = frozenset([b'\\answered', b'\\deleted', b'\\draft', b'\\flagged',
                    b'\\seen'])


class Msg:
    __slots__ = ('uid', 'flags', 'date', 'body', 'token', 'adopt_content')

    def __init__(self, uid, flags, date, body, token=None) -> None:
        self.uid = uid
        self.flags = frozenset(f.lower() for f in flags)
        self.date = date          # aware datetime or None (= server clock)
        self.body = body
        self.token = token
        self.adopt_content = False

    def row(self):
        return (self.uid, tuple(sorted(self.flags)), self.date,
                len(self.body))


class Box:
    def __init__(self, next_uid=101, readonly=False, permitted=SYSTEM,
                 any_keyword=False) -> None:
        self.msgs: list[Msg] = []
        self.next_uid = next_uid
        self.readonly = readonly
        self.permitted = permitted
        self.any_keyword = any_keyword

    def get(self, uid):
        for m in self.msgs:
            if m.uid == uid:
                return m
        return None

    def uids(self):
        return [m.uid for m in self.msgs]

    def add(self, flags, date, body, token=None) -> Msg:
        m = Msg(self.next_uid, frozenset(flags) - {b'\\recent'}, date, body,
                token)
        self.next_uid += 1
        self.msgs.append(m)
        return m

    def permit(self, flags):
        out = set()
        for f in flags:
            f = f.lower()
            if f == b'\\recent':
                continue
            if f in self.permitted or (self.any_keyword
                                       and not f.startswith(b'\\')):
                out.add(f)
        return frozenset(out)

    def rows(self):
        return [m.row() for m in self.msgs]


class Store:
    def __init__(self) -> None:
        self.boxes: dict[str, Box] = {}
        # backends that rewrite content/dates on APPEND: adopt when first seen
        self.adopt_appends = False

    def clone(self):
        return copy.deepcopy(self)

    def box(self, name: str):
        if name.upper() == 'INBOX':
            name = 'INBOX'
        return self.boxes.get(name)


def addressed(view, spec: bytes, uid_mode: bool):
    """Messages addressed by a sequence set against a view (list of UIDs).
    Returns list of (seq, uid) in ascending sequence order."""
    if uid_mode:
        mx = max(view) if view else 0
        mem = seqset.members(spec, mx) if view else set()
        return [(i, u) for i, u in enumerate(view, 1) if u in mem]
    if not view:
        # '*' on an empty mailbox addresses nothing
        return []
    mem = seqset.members(spec, len(view))
    return [(i, u) for i, u in enumerate(view, 1) if i in mem]


def apply_flags(box: Box, m: Msg, op: bytes, flags) -> None:
    fl = box.permit(flags)
    if op == b'+':
        m.flags = m.flags | fl
    elif op == b'-':
        m.flags = m.flags - fl
    else:
        m.flags = fl
