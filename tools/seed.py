#!/usr/bin/env python3
"""Seeded-change bookkeeping.

  seed.py verify <src_dir> <i> <seed_id> <prop> : confirm patch<i>.diff from a
      sub-agent in a scratch worktree of /repo HEAD (applies, suite passes,
      demo exits 1 with / 0 without), then keep it as /verif/seeded/<seed_id>/.
  seed.py run <seed_id> [check ids...] [--tier quick] : apply the kept patch to
      /repo, run the checks, undo, record which checks caught it.
"""
import json
import os
import shutil
import subprocess
import sys
import time

ROOT = os.path.dirname(os.path.dirname(os.path.abspath(__file__)))
SEEDED = os.path.join(ROOT, 'seeded')
SUITE = ['/venv/bin/python', '-m', 'pytest', '-q', '-p', 'no:cacheprovider',
         '--timeout=900',
         '--ignore', 'test/server/test_admin_auth.py',
         '--ignore', 'test/server/test_admin_mailbox.py',
         '--ignore', 'test/server/test_admin_system.py',
         '--ignore', 'test/server/test_admin_user.py']


def sh(cmd, cwd=None, env=None, timeout=1800):
    e = dict(os.environ)
    if env:
        e.update(env)
    p = subprocess.run(cmd, cwd=cwd, env=e, capture_output=True, text=True,
                       timeout=timeout)
    return p.returncode, p.stdout + p.stderr


def verify(src, i, seed_id, prop):
    patch = os.path.join(src, f'patch{i}.diff')
    demo = os.path.join(src, f'demo{i}.py')
    notes = os.path.join(src, f'notes{i}.md')
    wt = f'/tmp/mv/{seed_id}'
    sh(['git', '-C', '/repo', 'worktree', 'remove', '--force', wt])
    os.makedirs('/tmp/mv', exist_ok=True)
    rc, out = sh(['git', '-C', '/repo', 'worktree', 'add', '--detach', wt,
                  'HEAD'])
    assert rc == 0, out
    res = {'seed_id': seed_id, 'property': prop, 'source': f'{src} #{i}'}
    env = {'PYTHONPATH': wt, 'PYTHONDONTWRITEBYTECODE': '1'}
    try:
        rc0, out0 = sh(['/venv/bin/python', demo], cwd=wt, env=env)
        res['demo_without_patch_exit'] = rc0
        rc, out = sh(['git', 'apply', patch], cwd=wt)
        if rc != 0:
            rc, out = sh(['git', 'apply', '--3way', patch], cwd=wt)
        res['applies_to_head'] = (rc == 0)
        if rc != 0:
            res['apply_error'] = out[-500:]
            print(json.dumps(res, indent=1))
            return res
        rc, out = sh(['git', 'diff', 'HEAD'], cwd=wt)
        patch_text = out
        rc, out = sh(SUITE, cwd=wt, env=env)
        tail = out.strip().splitlines()[-1] if out.strip() else ''
        res['suite_exit'] = rc
        res['suite_tail'] = tail
        rc1, out1 = sh(['/venv/bin/python', demo], cwd=wt, env=env)
        res['demo_with_patch_exit'] = rc1
        res['demo_with_patch_tail'] = out1.strip().splitlines()[-3:]
        ok = (res['suite_exit'] == 0 and '300 passed' in tail
              and rc1 != 0 and rc0 == 0)
        res['confirmed'] = ok
        if ok:
            d = os.path.join(SEEDED, seed_id)
            os.makedirs(d, exist_ok=True)
            with open(os.path.join(d, 'patch.diff'), 'w') as f:
                f.write(patch_text)
            shutil.copy(demo, os.path.join(d, 'demo.py'))
            if os.path.exists(notes):
                shutil.copy(notes, os.path.join(d, 'notes.md'))
            meta = {
                'seed_id': seed_id, 'breaks_property': prop,
                'needs': open(notes).read() if os.path.exists(notes) else '',
                'confirmed_by': {
                    'tree': sh(['git', '-C', '/repo', 'rev-parse', 'HEAD'])[1].strip(),
                    'suite': tail,
                    'demo_exit_without_patch': rc0,
                    'demo_exit_with_patch': rc1,
                    'ran': ['git apply patch.diff',
                            ' '.join(SUITE),
                            'PYTHONPATH=<tree> /venv/bin/python demo.py (with and without the patch)'],
                },
                'detected_by': {},
            }
            with open(os.path.join(d, 'meta.json'), 'w') as f:
                json.dump(meta, f, indent=1)
    finally:
        sh(['git', '-C', '/repo', 'worktree', 'remove', '--force', wt])
        shutil.rmtree(wt, ignore_errors=True)
    print(json.dumps(res, indent=1))
    return res


def run(seed_id, checks, tier='quick', extra=()):
    d = os.path.join(SEEDED, seed_id)
    meta = json.load(open(os.path.join(d, 'meta.json')))
    checks = checks or [meta['breaks_property']]
    wt = f'/tmp/mv/run-{seed_id}'
    sh(['git', '-C', '/repo', 'worktree', 'remove', '--force', wt])
    os.makedirs('/tmp/mv', exist_ok=True)
    rc, out = sh(['git', '-C', '/repo', 'worktree', 'add', '--detach', wt,
                  'HEAD'])
    assert rc == 0, out
    rc, out = sh(['git', 'apply', os.path.join(d, 'patch.diff')], cwd=wt)
    assert rc == 0, out
    try:
        for c in checks:
            t0 = time.time()
            rc, out = sh([os.path.join(ROOT, 'check'), c, '--tier', tier,
                          *extra], cwd=ROOT,
                         env={'VERIF_NO_EVIDENCE': '1', 'PYMAP_SRC': wt},
                         timeout=7200)
            viol = [ln for ln in out.splitlines() if ln.startswith('VIOLATION')]
            first = ''
            lines = out.splitlines()
            for k, ln in enumerate(lines):
                if ln.startswith('VIOLATION'):
                    first = (lines[k + 1].strip() if k + 1 < len(lines) else '')
                    break
            meta['detected_by'][f'{c}:{tier}'] = {
                'exit': rc, 'violation_lines': len(viol),
                'first': first[:300], 'wall_s': round(time.time() - t0, 1)}
            print(f'{seed_id} {c}:{tier} exit={rc} violations={len(viol)} '
                  f'{first[:200]}')
            if rc not in (0, 1):
                print(out[-1500:])
    finally:
        sh(['git', '-C', '/repo', 'worktree', 'remove', '--force', wt])
        shutil.rmtree(wt, ignore_errors=True)
    with open(os.path.join(d, 'meta.json'), 'w') as f:
        json.dump(meta, f, indent=1)


def table():
    """Markdown table of the kept changes and the checks that catch them
    (from the meta.json files written by verify/run)."""
    import re
    rows = []
    for sid in sorted(os.listdir(SEEDED)):
        mp = os.path.join(SEEDED, sid, 'meta.json')
        if not os.path.exists(mp):
            continue
        m = json.load(open(mp))
        needs = (m.get('needs') or '').strip().splitlines()
        title = needs[0] if needs else ''
        title = re.sub(r'^#+\s*', '', title)
        title = re.sub(r'^(C\d\d\s*[/,-]?\s*)?(round \d\s*[,/]\s*)?'
                       r'((change|patch)\s*\d\s*[:—-]*\s*)?', '', title,
                       flags=re.I).strip(' -—:')
        title = re.sub(r'^(C\d\d[- ]r\d\s*)?((change|patch)\s*\d\s*[:—-]*\s*)',
                       '', title, flags=re.I).strip(' -—:')
        det = m.get('detected_by', {})
        caught = sorted(k.split(':')[0] for k, v in det.items()
                        if v.get('exit') == 1)
        missed = sorted(k.split(':')[0] for k, v in det.items()
                        if v.get('exit') == 0)
        c = ', '.join(caught) if caught else '**not caught**'
        if missed and caught:
            c += ' (not by ' + ', '.join(missed) + ')'
        rows.append(f'| {sid} | {title[:150]} | {c} |')
    print('| Seeded change | What it does | Caught by (quick tier) |')
    print('|---|---|---|')
    print('\n'.join(rows))


if __name__ == '__main__':
    if sys.argv[1] == 'table':
        table()
    elif sys.argv[1] == 'verify':
        verify(sys.argv[2], sys.argv[3], sys.argv[4], sys.argv[5])
    elif sys.argv[1] == 'run':
        args = sys.argv[2:]
        tier = 'quick'
        extra = []
        if '--tier' in args:
            k = args.index('--tier')
            tier = args[k + 1]
            del args[k:k + 2]
        if '--' in args:
            k = args.index('--')
            extra = args[k + 1:]
            args = args[:k]
        run(args[0], args[1:], tier, extra)
