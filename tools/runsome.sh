#!/bin/bash
# usage: tools/runsome.sh <tier> <id>... ; one line per check
cd "$(dirname "$0")/.."
tier=$1; shift
for id in "$@"; do
  s=$(date +%s)
  out=$(./check $id --tier $tier 2>&1); rc=$?
  e=$(( $(date +%s) - s ))
  echo "$id rc=$rc ${e}s $(echo "$out" | grep -c '^VIOLATION') violations $(echo "$out" | grep -c '^KNOWN') known"
  if [ $rc -ne 0 ]; then echo "$out" | grep -A1 '^VIOLATION\|HARNESS\|Error' | head -8; fi
done
