#!/usr/bin/env python3
"""Regenerates MANIFEST.json from the table below (single source of truth)."""
import json, os
ROOT = os.path.dirname(os.path.dirname(os.path.abspath(__file__)))
props = [json.loads(l) for l in open(os.path.join(ROOT, 'properties.jsonl'))]

CHECKS = {
 'C05': dict(
    engine='E5 explicit-state BFS (vf/explore.py) over vf/checks/c05.py',
    category='model_checking',
    text='Exhaustive breadth-first exploration of every command sequence up to depth 4 (quick) / 5 (thorough) over a 60-line alphabet covering every built-in command class (valid/invalid, UID variants, read-only/read-write, existing/missing mailbox, AUTHENTICATE exchanges, STARTTLS, IDLE, LOGOUT) in 4 configurations {TLS offered or not} x {local, remote peer}, executed on the real server over a virtual event loop; each transition is compared with a reference connection FSM, refused commands must leave control state and data unchanged, and the control state is confirmed black-box by probe commands on a discarded copy of each state.',
    design_ref='DESIGN.md section 3 C05, appendix B',
    note='single connection, dict backend with demo data, TLS handshake answered by the mock transport; only the control component is predicted (data effects: C10-C12); sequences beyond the depth bound are not explored (the random-beyond-the-bound clause is not attempted: sampling is outside the family)',
    technique='explicit-state model checking of the implementation (BFS over command histories, canonical-state dedup) against a reference FSM'),
}
CHECKS['C01'] = dict(
    engine='E5 explicit-state BFS over vf/checks/seqmodel.py (step oracles)',
    category='model_checking',
    text='Exhaustive BFS over all interleavings of whole commands of 2-3 sessions that have the same dict-backend mailbox selected (14-17 commands per session incl. STORE/.SILENT/EXPUNGE/UID EXPUNGE/APPEND/COPY/MOVE/FETCH/SEARCH/NOOP/CHECK, IDLE and DONE as separate events, optional EXAMINE observer), depth 3-4 quick / 4-5 thorough. Under asyncio on the dict backend nothing inside a command suspends, so whole-command interleavings are all realizable interleavings (DESIGN F2/F3). After every tagged response each session\'s shadow client (built only from untagged data) is compared with the server\'s own sequence-number view; transcript rules (EXPUNGE range, EXISTS monotone, no EXPUNGE during non-UID FETCH/STORE/SEARCH, UID order, UID re-labelling) are enforced on every response.',
    design_ref='DESIGN.md section 3 C01',
    note='dict backend / asyncio subsystem only in this check; <= 3 sessions; depth bound; sub-command interleavings around IDLE and literals are explored by C16',
    technique='explicit-state model checking of the implementation: BFS over command interleavings with shadow-client oracle')
CHECKS['C02'] = dict(
    engine='E5 explicit-state BFS over vf/checks/seqmodel.py (probe oracle)',
    category='model_checking',
    text='Same state space as C01. At every explored state, on a discarded copy of that state, every selecting session issues NOOP (thorough also CHECK) and its shadow view (count, UID per position, flags per message) must equal the stored mailbox read glass-box: no lost, phantom or stuck update.',
    design_ref='DESIGN.md section 3 C02',
    note='dict backend / asyncio subsystem; <= 3 sessions; depth bound; slots whose flags the server never reported are not compared',
    technique='explicit-state model checking of the implementation: BFS over command interleavings, convergence oracle at every state')
CHECKS['C17'] = dict(
    engine='E5 explicit-state BFS over vf/checks/c17.py',
    category='model_checking',
    text='Exhaustive BFS over all histories (depth 3 quick / 4 thorough with 2 sessions, depth 2/3 with 3 sessions) of SELECT/EXAMINE/SELECT-other/CLOSE/relogin/NOOP/FETCH/STATUS/STORE(+-=\\Recent)/SEARCH RECENT/APPEND(with and without a \\Recent flag)/COPY/MOVE per session plus a non-selecting delivery agent and the weak-set iteration order as an explicit choice, on the real dict backend. A reference recency model classifies each message as pending (arrived while no read-write selection existed) or assignable; every \\Recent sighting (solicited or unsolicited FETCH, SEARCH RECENT) is attributed to a (session, selection epoch); oracles: at most one read-write selection ever shows a message \\Recent, read-only selections never consume it, the first read-write SELECT shows all pending ones, SELECT/untagged RECENT counts equal what FETCH shows, and a brand-new read-write session (on a discarded copy of every state) sees \\Recent exactly on the still-pending messages (never stored, not settable by STORE/APPEND/COPY).',
    design_ref='DESIGN.md section 3 C17',
    note='dict backend only in this check; <= 3 sessions; which of several live read-write selections receives \\Recent is left open; STATUS (RECENT) of the selected mailbox is not compared (not in the property statement)',
    technique='explicit-state model checking of the implementation with a reference recency model')
CHECKS['C12'] = dict(
    engine='E5 explicit-state BFS over vf/checks/c12.py',
    category='model_checking',
    text='Exhaustive BFS (depth 2 quick / 3 thorough; the reachable state set is small because almost nothing may change, so every command is applied in every reachable state) over a ~200-command alphabet issued inside a read-only selection: every STORE/UID STORE mode x set x flag list, FETCH/UID FETCH with every \\Seen-setting and peeking item, COPY/MOVE/UID COPY/UID MOVE to read-write, read-only and missing destinations, EXPUNGE/UID EXPUNGE, CLOSE and re-entry, SEARCH, IDLE/DONE, APPEND into a read-only mailbox, an external delivery and a read-write observer. Variants: EXAMINE of a read-write mailbox; SELECT of a read-only mailbox. Oracles: persistent content of the selected mailbox (glass-box) unchanged by every command, STORE/EXPUNGE/adds into a read-only mailbox answer NO, CLOSE answers OK and deselects, and an independent read-write probe session on a discarded copy of every state sees the same dump (incl. which messages it is given as \\Recent) as before the program (+ deliveries).',
    design_ref='DESIGN.md section 3 C12',
    note='dict backend with demo data; <= 1 observer; COPY/APPEND by name into a read-write mailbox that the session merely EXAMINEd is treated as an ordinary delivery, not as an effect of the read-only selection',
    technique='explicit-state model checking of the implementation; before/after dump oracle')
CHECKS['C10'] = dict(
    engine='E5 two-level explicit-state search over vf/checks/c10.py + vf/refmodel/mailbox.py',
    category='model_checking',
    text='Level 1: exhaustive BFS over all sequences (depth 2 quick / 3 thorough) of a 14-event driver alphabet (APPEND with flags/date, multi-APPEND, STORE, EXPUNGE, UID EXPUNGE, COPY, MOVE, FETCH BODY[], CLOSE+SELECT, NOOP and a second session that expunges, appends a \\Deleted message and changes flags, so that the acting session holds stale views), giving the reachable states S. Level 2: every command of a ~440 (quick) / ~970 (thorough) command probe alphabet ({STORE,UID STORE} x modes x .SILENT x 9-10 sequence/UID-set shapes incl. reversed ranges, *, out-of-range, duplicates, out-of-order x 5 flag lists; {FETCH,UID FETCH} x sets x 14 items incl. partials, PEEK and BINARY forms; COPY/MOVE and UID variants x sets x 3 destinations; EXPUNGE, UID EXPUNGE x sets; CLOSE; APPEND variants incl. MULTIAPPEND and the zero-length cancel) is applied once in every state of S on the real server. Each result (which messages are reported with which flags/UIDs/bytes, COPYUID/APPENDUID pairs, tagged condition) and the complete mailbox contents afterwards (UID, flags, INTERNALDATE, bytes of every message in every mailbox) are compared with a plain reference model; the glass-box dump is cross-checked against an independent read-only probe session.',
    design_ref='DESIGN.md section 3 C10',
    note='dict backend; acting session plus one concurrent session; tolerances: RFC 2180 behaviour for messages another session expunged, keywords outside PERMANENTFLAGS, \\Deleted messages outside the session view on EXPUNGE, empty-set COPY may be OK or NO; SEARCH is C13',
    technique='explicit-state model checking of the implementation (two-level: BFS-reached states x full probe alphabet) against a reference model')
CHECKS['C11'] = dict(
    engine='E5 two-level explicit-state search over vf/checks/c11.py + vf/refmodel/namespace.py',
    category='model_checking',
    text='Level 1: exhaustive BFS (depth 3 quick / 4 thorough) over a 13-event driver alphabet (CREATE of flat, nested and deep names, DELETE, RENAME incl. RENAME INBOX, SUBSCRIBE/UNSUBSCRIBE, APPEND, a second session selecting a mailbox) on the real server. Level 2: in every reached state, 240 LIST/LSUB probes (6 references x 20 patterns incl. *, %, mixed, case variants of INBOX, trailing delimiter, empty pattern), STATUS of 13 names, and ~70 hostile CREATE/DELETE/SUBSCRIBE/RENAME/APPEND probes (case variants of INBOX, trailing and doubled delimiters, wildcard, quote, newline, non-ASCII and invalid-UTF-7 names, renames onto existing names, into the own subtree, onto placeholders, of placeholders) are executed; results are compared with a reference namespace model (explicit recursive pattern matcher, no regex) and the complete namespace afterwards (names via LIST, subscriptions via LSUB, MAILBOXID/UIDVALIDITY/UIDNEXT/MESSAGES via STATUS, decoded by an independent modified-UTF-7 decoder) must equal the model; refused commands must change nothing; RENAME must carry identity, messages, UIDs and UIDVALIDITY.',
    design_ref='DESIGN.md section 3 C11',
    note='dict backend; tolerances listed in DESIGN C11 (SUBSCRIBE of a missing name OK or NO, trailing-delimiter CREATE, DELETE with inferiors, RENAME of/onto a \\Noselect placeholder, names with empty components outside the model); two recorded known findings about LSUB',
    technique='explicit-state model checking of the implementation (two-level) against a reference namespace model')
CHECKS['C13'] = dict(
    engine='E8 bounded-exhaustive enumeration (vf/checks/c13.py)',
    category='exploration',
    text='Complete enumeration of search programs over 74 atoms (every supported key with boundary arguments: dates on/adjacent to message dates incl. near-midnight time zones, sizes |m|-1,|m|,|m|+1, strings in header only / body only / both / neither / other case / empty, present-but-empty and absent headers, keywords, sequence sets 1, 2:1, *, 1:*, 9, 2,4, 4:*, UID sets incl. expunged and out-of-range UIDs): a, NOT a, NOT NOT a, (a), and for every ordered pair a b, OR a b, NOT (a b), NOT OR a b, NOT a NOT b, (a b) (32 000 programs quick; thorough adds three depth-2 shapes x 4 third atoms, 145 000 programs), each as SEARCH and UID SEARCH, on a plain 5-message view and on a view in which another session expunged two messages that the searching session has not been told about. Oracle: an independent evaluator over the raw message bytes (own header splitter, own sequence-set evaluation); SEARCH and UID SEARCH must correspond through the view\'s seq->UID map; no EXPUNGE may be sent during SEARCH. The metamorphic identities of the property follow because both sides of each identity are compared with the same evaluator.',
    design_ref='DESIGN.md section 3 C13',
    note='dict backend; US-ASCII messages, substring matching (charset conversion and MIME-decoded matching not modelled); nesting depth <= 2; hand-built mailbox rather than random messages (sampling is outside the family)',
    technique='bounded-exhaustive enumeration of search programs executed on the implementation, compared with an independent evaluator')
CHECKS['C19'] = dict(
    engine='E5 explicit-state BFS over vf/checks/c19.py',
    category='model_checking',
    text='Exhaustive BFS (depth 4 quick / 5 thorough) over a 58-event ManageSieve alphabet on two connections and two users: AUTHENTICATE PLAIN in initial-response and challenge forms (good, wrong password, cancelled, unknown mechanism, second user on the same connection), UNAUTHENTICATE, LOGOUT, NOOP with and without tag, CAPABILITY, STARTTLS, unknown command, and PUTSCRIPT/GETSCRIPT/SETACTIVE/DELETESCRIPT for names {a, b, UTF-8, name with a quote, empty} with valid/invalid/empty/binary script bodies (quoted and literal spellings), LISTSCRIPTS, SETACTIVE "", RENAMESCRIPT pairs incl. self-rename and existing target, HAVESPACE, CHECKSCRIPT. Every response is parsed by an independent RFC 5804 response parser and compared with a dictionary model per user (name->bytes, one active name); before authentication every script command must be refused; after every step the real filter stores of both users (glass-box) must equal the models (isolation, no effect of refused commands); at every state fresh authenticated connections and the explored connections themselves re-list and re-fetch everything.',
    design_ref='DESIGN.md section 3 C19',
    note='dict backend filter store; PUTSCRIPT of an invalid script or with an empty name may be refused or accepted; TLS handshake answered by the mock transport',
    technique='explicit-state model checking of the implementation against a dictionary model')
CHECKS['C20'] = dict(
    engine='E1 virtual loop + exhaustive event-order search (vf/checks/c20.py)',
    category='model_checking',
    text='(a) The real asyncio read-write lock: every program of 2-3 (thorough: 4) harness tasks x 1-2 acquisitions in {R,W} that contains a writer (70 programs quick), with one harness-owned yield inside every critical section. Task start and in-section resume are external events; the search enumerates every order in which they can be released (every such order is realizable by a real event loop, while the lock\'s own hand-offs keep their real FIFO order), with state-key deduplication, and additionally cancels any one started task at any point of any interleaving. Oracle from the enter/exit log: no writer section overlaps any other section; terminal states with an unfinished task are deadlocks; after a cancellation the remaining tasks still finish and a fresh reader and writer are granted, exclusively. (b) The real FileLock on the virtual loop with virtual time in a scratch directory: 2-4 writers/readers, bodies that raise, cancellation at any point, retry-sleep timers as explicit events, a stale (older than expiry) and a live foreign lock file; oracle: never two writers inside, and after all holders left (normally, by exception or by cancellation) the lock file is gone.',
    design_ref='DESIGN.md section 3 C20',
    note='the threading read-write lock and FileLock under real threads are not explored by this check (no thread scheduler engine was built); FileLock holders are assumed to hold for less than the expiry; FileLock reader/writer overlap is by design and not claimed by the property',
    technique='exhaustive enumeration of event orders and cancellation points on the real lock objects under a virtual event loop')
CHECKS['C09'] = dict(
    engine='E5 explicit-state BFS over vf/checks/c09.py',
    category='model_checking',
    text='Exhaustive BFS (depth 4 quick / 5 thorough) over authentication events on one connection, for 6 configurations (IMAP and ManageSieve x TLS offered or not x local or remote peer): LOGIN with 10 credential shapes (good, wrong, empty, unknown user, admin, 8-bit, 1000-byte, another user\'s password, case variant, new password), AUTHENTICATE PLAIN with 16 response shapes (good, authzid=self, wrong password, authzid!=authcid by a normal user / by an admin / for an unknown user / with the admin\'s wrong password, unknown authcid, malformed base64, cancel, empty, missing NULs, 10 kB), AUTHENTICATE LOGIN exchanges incl. cancellation at the second step, unknown mechanism, STARTTLS, UNAUTHENTICATE, reconnect, and an out-of-band password change. A reference auth model predicts the admissible identities; the identity a connection acts as is read glass-box (session owner) after every step and black-box (marker mailbox / marker script visible to the connection) on a discarded copy of every state. Oracles: authenticated only after verifying credentials of an existing user over a channel on which PLAIN/LOGIN is offered; acting as another identity only with the admin role; LOGIN refused while LOGINDISABLED is advertised; failed/cancelled/malformed exchanges leave the connection unauthenticated; tagged result and state agree.',
    design_ref='DESIGN.md section 3 C09',
    note='dict backend; not granting a proxy identity and ignoring the requested authorisation identity (acting as the authenticating user) are admissible; successful credentials are part of the state key so that cache-like hidden state is not merged away; maildir Login is not in this check',
    technique='explicit-state model checking of the implementation against a reference auth model')
CHECKS['C06'] = dict(
    engine='E8 bounded-exhaustive input enumeration (vf/enum_inputs.py, vf/fuzzdrv.py, vf/checks/c06.py)',
    category='exploration',
    text='Complete enumeration, executed on the real server over the virtual loop, of: all raw lines over a 16-byte alphabet (letters, space, quote, backslash, parentheses, braces, +, digit, *, &, -, NUL, 0x80, CR) up to length 3 (thorough 4), bare and behind a tag, in the not-authenticated, authenticated and selected states, on IMAP and ManageSieve; every command word x every raw argument up to length 2; 43 command templates x every value of every slot domain (mailbox names with invalid/unterminated modified UTF-7, 8-bit, literals of all forms incl. oversized and short, sequence sets incl. >= 2^32, 57 fetch items incl. malformed sections and partials, flag lists, store modes, date-times, 20 charsets whose probe decode raises non-LookupError, 76 search programs incl. 600-deep OR/NOT chains and 1100-deep parentheses, ID lists, credentials, status attributes) and all pairs of hostile slots, also issued in the wrong states; every valid line, fetch item and search key right after another session renamed / deleted / re-created / emptied the selected mailbox; every single-point mutation (delete, duplicate, replace by 12 bytes, insert) at every position of every valid line; 14 ManageSieve commands x 28 hostile argument shapes; a message corpus (all strings of <= 2 tokens, thorough 3, from a 14-token alphabet of header/MIME/CR/LF/NUL/8-bit fragments plus 37 header and nesting bombs) stored by APPEND and hit with every FETCH item form and every SEARCH key; the bad-command limit. Oracle per input: within a step budget and a CPU watchdog the server wrote a tagged completion with the line\'s tag (or * BAD), or a continuation request (answered or cancelled by the driver, recursively), or BYE before closing; no [SERVERBUG]; no close without BYE; output ends on a line boundary; a second connection still gets its NOOP answered.',
    design_ref='DESIGN.md section 3 C06',
    note='dict backend with demo data; lines shorter than the 64 KiB stream limit; a line whose announced literal is longer than the bytes supplied leaves the server legitimately waiting; two recorded known findings (selection followed by name to a different mailbox; 500-deep MIME recursion)',
    technique='bounded-exhaustive input enumeration executed on the implementation under a virtual loop with step budget and CPU watchdog')
CHECKS['C07'] = dict(
    engine='E8 enumeration + independent strict response parser (vf/respparse.py, vf/checks/c07.py on the C06 engine)',
    category='exploration',
    text='100 % of the bytes the server writes during the following complete enumerations are parsed by an independent strict RFC 3501 response parser (written from the section 9 grammar plus LITERAL+, BINARY, UIDPLUS, MOVE, ID, OBJECTID, CHILDREN, IDLE, MULTIAPPEND; never imports pymap): the whole C06 corpus (everything echoed in BAD/NO texts and tags); mailbox names - all strings over a 20-character alphabet (delimiter, quote, backslash, &, -, wildcards, space, LF, CR, NUL, DEL, TAB, parentheses, brace, bracket, Latin-1, CJK, astral) up to length 2 (thorough 3) created via literal and read back through LIST, LSUB, STATUS, SELECT, RENAME, COPY and error texts; 18 header fields x 42 hostile values (bare CR, folded lines, NUL, quotes, backslashes, 8-bit, RFC 2047 words decoding to control characters, 63/64/65/5000 bytes, group syntax, broken parameters) at top level and inside nested and message/rfc822 parts, read back through ENVELOPE, BODY, BODYSTRUCTURE and header sections; all MIME part trees of depth <= 2 (thorough 3) and fan-out <= 2 over text / other / multipart (normal, missing and quoted boundary, zero parts) / message/rfc822; hostile keywords and ID values. Oracle: complete responses ending in CRLF, literal counts equal to the bytes that follow, quoted strings without CR/LF/NUL/unescaped specials, balanced lists, ENVELOPE and BODYSTRUCTURE shapes, no stream ending inside a response.',
    design_ref='DESIGN.md section 3 C07',
    note='8-bit bytes inside quoted strings and an empty response text are accepted (the property does not forbid them); ManageSieve output is not judged by this property; four recorded known findings (zero-part multipart; three FETCH-phase exceptions that tear the response)',
    technique='bounded-exhaustive enumeration of echo-able client data, every server byte checked by an independent strict grammar parser')
CHECKS['C03'] = dict(
    engine='E8 bounded-exhaustive enumeration (vf/checks/c03.py)',
    category='exploration',
    text='Every distinct concatenation of <= 4 (quick; 5 thorough: ~5*10^5) tokens from a 14-token alphabet (a header line, text/plain, multipart and message/rfc822 Content-Type lines, boundary delimiters, a body character, space, TAB, CRLF, bare LF, bare CR, NUL, 0xFF) plus 18 length-boundary strings (4095..65537 bytes) and 30 header/nesting bombs is APPENDed to the real server and read back: BODY[] and RFC822.SIZE must equal the bytes and their length, BODY[HEADER]+BODY[TEXT] must equal the message, BODY[]<o.n> must equal b[o:o+n] for all (o,n) in {0,1,|b|-1,|b|,|b|+1}^2, every part announced in BODYSTRUCTURE is fetched and its length compared with the announced octets, and the copies produced by COPY and MOVE are re-fetched and compared (literal framing is checked by the response parser).',
    design_ref='DESIGN.md section 3 C03',
    note='dict backend only in this check (the maildir backend stores through email objects and rewrites CRLF: not claimed here); strings over the token alphabet and the listed boundaries, not arbitrary 64 KiB contents; messages whose FETCH response is itself malformed (C07/C06 known findings) are counted as skipped; two recorded known findings about BODYSTRUCTURE part sizes (pinned by the suite)',
    technique='bounded-exhaustive enumeration of message byte strings through APPEND/FETCH/COPY/MOVE on the implementation with byte-equality oracles')
CHECKS['C18'] = dict(
    engine='E8 bounded-exhaustive enumeration (vf/checks/c18.py)',
    category='exploration',
    text='(a) For 26 command templates with string-typed arguments (LOGIN, SELECT, EXAMINE, CREATE, DELETE, RENAME, SUBSCRIBE, STATUS, LIST, LSUB, APPEND, COPY, MOVE, SEARCH SUBJECT/HEADER/FROM/TO/TEXT/BODY/CHARSET, FETCH HEADER.FIELDS, ID, ...) the full product of spellings {atom where legal, quoted, synchronising literal with the continuation exchange, non-synchronising literal} of all arguments simultaneously x 3 letter cases of the command word (+ doubled spaces where the server accepts them) is executed, each on a fresh identical world; every sibling must produce the same transcript (modulo tag, continuation requests and random object ids) and the same canonical glass-box state as the reference spelling. (b) Every mailbox name of length <= 3 (thorough 4) over 17 characters (ASCII, &, -, delimiter, +, comma, ~, LF, TAB, DEL, Latin-1, CJK, astral, and four characters chosen by the base64 digit class of their UTF-16 form) is created through a literal; LIST and STATUS must report a spelling that an independent RFC 3501 5.1.3 decoder maps back to the name; pymap\'s encoder must agree with the independent encoder and decode(encode(s)) = s for all strings to length 5 (thorough 6) over 11 characters. (c) Seam round trips: for bounded domains of SequenceSet, Flag, DateTime, QuotedString, LiteralString, AString, Mailbox, Number, ObjectId, FetchAttribute, StatusAttribute, parse(bytes + tail) must consume exactly its own bytes for 5 trailing contexts and bytes(parse(x)) must re-parse to the same value.',
    design_ref='DESIGN.md section 3 C18',
    note='dict backend with demo data; fetch attributes re-serialise to their response form by design (.PEEK and partial length dropped), so they are only checked for exact consumption',
    technique='bounded-exhaustive enumeration of wire spellings, sibling-differential oracle on identical worlds, independent modified-UTF-7 codec')
CHECKS['C16'] = dict(
    engine='E5 deviation-bounded stateless exploration (vf/checks/c16.py) on E1/E2',
    category='model_checking',
    text='For 36 scenarios quick / ~110 thorough (1-2 idling sessions; 1-2 writers with bursts of 1-2, thorough 3, commands from APPEND, STORE +\\Flagged, STORE +\\Deleted;EXPUNGE, silent STORE, MOVE; variants with a change made just before IDLE is entered and with a non-DONE line) every execution with at most 2 (thorough: 3 for short bursts) deviations from the default environment is enumerated on the real server over the virtual loop by recursive re-execution: at every loop-iteration boundary the environment may deliver the next client chunk although handles are still ready, deliver an idler\'s DONE early, gate an idler\'s drain (TCP back-pressure) and release it later, or choose another quiescent-time delivery order; every execution runs until nothing is runnable. Oracle at that horizon, with no further stimulus: each idler\'s shadow client (count, UID per position, flags) equals the stored mailbox; all sequence-number rules hold for the pushed data; every writer command completed; then DONE yields the tagged OK (any other line BAD); sessions that left IDLE early converge with one NOOP.',
    design_ref='DESIGN.md section 3 C16',
    note='dict backend / asyncio subsystem; deviation bound 2 (3 for short single-writer bursts in thorough); the maildir 1 s poll loop is not explored by this check',
    technique='stateless deviation-bounded model checking of the implementation under a controlled event loop (iterative context bounding over environment answers)')
CHECKS['C08'] = dict(
    engine='E8 enumeration + E6 filesystem jail (vf/fsjail.py, vf/checks/c08.py)',
    category='exploration',
    text='Every /-joined mailbox name of <= 2 (thorough 3: ~2 400 names) components from a 13-component alphabet (empty, ., .., a, INBOX, a.b, .a, NUL, non-ASCII, 300 characters, the other user\'s name, cur, ~) plus 22 special names (~, /etc, ../bob, ../../x, ..bob, ../bob/Keep, ../pymap-etc-passwd, backslash forms, ...) is sent, as a literal, in each of 15 mailbox-taking positions (CREATE, DELETE, RENAME source and destination, SELECT followed by FETCH/STORE/EXPUNGE/CLOSE, EXAMINE, STATUS, APPEND, COPY and MOVE destination, SUBSCRIBE, UNSUBSCRIBE, LIST/LSUB reference and pattern with wildcards appended, CREATE-then-DELETE) on the maildir backend with the ++ and fs layouts and on the dict backend, each execution on a fresh copy of a two-user store. On maildir the whole run is inside an os-level jail that logs every os.*/open/shutil call with realpath-resolved arguments and refuses (and records) any mutation outside the scratch root. Oracle: every path touched between the acting user\'s LOGIN and the end resolves strictly inside that user\'s directory (sanctioned exceptions: read-only access to the credential files, tempfile\'s own files in the assigned temp directory, stat of ancestor directories); no rmdir/rename/remove has the user directory itself as subject; the jail refused nothing; the other user\'s tree and the credential files are byte-identical before and after; on every backend the other user\'s LIST/STATUS view is unchanged; the two-user set-up itself must not interfere.',
    design_ref='DESIGN.md section 3 C08',
    note='maildir backend built with the asyncio subsystem; the jail only sees calls made through os / builtins.open / shutil.rmtree in the harness process',
    technique='bounded-exhaustive enumeration of hostile names x argument positions on the implementation under a filesystem-call jail')
CHECKS['C15'] = dict(
    engine='E6 crash-point enumeration (vf/fsjail.py, vf/checks/c15.py) on MaildirWorld',
    category='fault_enumeration',
    text='For every history of <= 2 (thorough 3: 1 884 per layout) commands over a 12-command alphabet (APPEND to INBOX with and without flags, APPEND to a second mailbox, STORE +\\Seen, STORE =\\Deleted, COPY, MOVE, EXPUNGE, CREATE, RENAME, SUBSCRIBE, CHECK) on a maildir store holding two acknowledged messages, for both layouts and for the temporary directory on the same and on another filesystem (every rename from it into the store answers EXDEV, as the kernel does), ONE execution of the real server under the filesystem interposer snapshots the store directory before every namespace-changing filesystem call inside a command, right after every truncating/creating open (the data only arrives at close), after every command and at the clean stop - exactly the disk states a SIGKILL at those boundaries leaves. Every distinct snapshot is handed to a fresh backend instance with the clock advanced past the lock expiry; LOGIN, LIST, LSUB and STATUS/SELECT/UID FETCH of every listed mailbox must answer without error, and the result is compared with the acknowledged-effects log of the crashed run: every acknowledged message is served with the same content, the last acknowledged flags and - unless UIDVALIDITY changed - the same UID; no UID denotes a different message; acknowledged CREATE/RENAME/SUBSCRIBE persist; a message being moved by the unacknowledged in-flight command is in source or destination.',
    design_ref='DESIGN.md section 3 C15',
    note='crash model = process kill between filesystem calls (no power-loss reordering, no torn sectors); content compared modulo the CRLF->LF rewriting of the maildir backend; messages the unacknowledged in-flight command could touch may be in their before- or after-state; one recorded known finding (kill inside CREATE leaves a half-made mailbox directory)',
    technique='exhaustive enumeration of crash points of short histories on the implementation (filesystem interposition, snapshot per boundary, recovery by a fresh backend)')
CHECKS['C14'] = dict(
    engine='E5 deviation (fault at every loop-iteration boundary) + E6 fault/crash injection (vf/checks/c14.py)',
    category='fault_enumeration',
    text='Commands under test: MOVE 1, MOVE 1:3, UID MOVE 1:*, MOVE into the selected mailbox itself, COPY 1:3, multi-message APPEND (3 messages; 2 into another mailbox), single APPEND, EXPUNGE of 3, each with unique-token messages, on the dict backend and the maildir backend (++; thorough also fs). (a) For every command the connection task is cancelled, the connection reset, or EOF delivered at EVERY loop-iteration boundary from the first byte of the command to quiescence (one execution per boundary and fault kind), and a synchronising-literal multi-APPEND is abandoned after each literal in four ways. (b) Storage faults: on dict the n-th MailboxData.append/copy/move/delete call raises, on maildir the n-th space-consuming filesystem call fails with ENOSPC, for every n the command reaches. (c) Process kill at every filesystem boundary of four MOVE histories per layout, followed by restart (the C15 machinery). After each fault a fresh connection dumps both mailboxes. Oracle: every pre-existing token is in source or destination (exactly one after an acknowledged MOVE, none left behind by an acknowledged multi-message MOVE); a multi-message APPEND is never partially stored and nothing is stored when it was answered NO/BAD; a command answered NO or BAD leaves every mailbox unchanged; no hang after the fault.',
    design_ref='DESIGN.md section 3 C14',
    note='asyncio subsystem; one acting session; a multi-APPEND that was completely received and stored although its OK could not be delivered (connection already gone) counts as all; maildir under worker threads is not explored; three recorded known findings (multi-APPEND is stored message by message)',
    technique='exhaustive fault enumeration on the implementation: one execution per (command, boundary, fault) / per n-th failing storage call / per crash point')
NA = {}

def main():
    checks = []
    for pid, c in CHECKS.items():
        checks.append({
            'property_id': pid,
            'quick_cmd': f'./check {pid} --tier quick',
            'thorough_cmd': f'./check {pid} --tier thorough',
            'evidence_file': f'/verif/evidence/{pid}.json',
            'replay_cmd_template': f'./check {pid} --replay {{path}}',
            'engine': c['engine'],
            'level_claimed': {'category': c['category'], 'text': c['text'], 'design_ref': c['design_ref']},
            'level_note': c['note'],
            'technique': c['technique'],
        })
    na = []
    for p in props:
        if p['id'] not in CHECKS:
            na.append({'property_id': p['id'], 'reason': NA.get(p['id'], 'check not built yet (work in progress; DESIGN.md section 3 describes the planned procedure)')})
    m = {
     'version': 1,
     'setup_cmd': '/venv/bin/python -m compileall -q vf && ./check SELFTEST --tier quick',
     'hooks': {'guard': 'PYMAP_VERIF', 'enable': 'no source hooks are needed: every seam is a duck-typed object, a constructor argument, or harness-side interposition on os/time/random (see DESIGN.md section 2); checks import pymap from /repo\'s working tree (PYTHONPATH=/repo) so they always run the current sources',
               'baseline_off_cmd': 'cd /repo && /venv/bin/python -m pytest -ra -q -p no:cacheprovider --timeout=900 --continue-on-collection-errors',
               'source_commits': [], 'add_only': True},
     'engines': [
        {'name': 'E1 virtual event loop', 'path': 'vf/loop.py', 'serves_properties': sorted(CHECKS), 'kind_free_text': 'iteration-faithful asyncio.BaseEventLoop subclass with virtual clock; external events injected only at iteration boundaries'},
        {'name': 'E2 wire + independent response parser + shadow client', 'path': 'vf/wire.py vf/respparse.py vf/shadow.py', 'serves_properties': sorted(CHECKS), 'kind_free_text': 'duck-typed stream transport, strict RFC 3501 response parser, client-view shadow'},
        {'name': 'E5 explicit-state explorer', 'path': 'vf/explore.py vf/canon.py', 'serves_properties': sorted(CHECKS), 'kind_free_text': 'level-synchronous BFS over event histories replayed on fresh worlds, canonical glass-box state keys, 16 worker processes'},
     ],
     'checks': checks,
     'notes': 'Model checking of the implementation itself (no external model): see DESIGN.md. known_findings.json lists recorded/fixed defects.',
     'not_applicable': na,
    }
    json.dump(m, open(os.path.join(ROOT, 'MANIFEST.json'), 'w'), indent=1)
    print('checks:', len(checks), 'not_applicable:', len(na))

if __name__ == '__main__':
    main()
