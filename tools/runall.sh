#!/bin/bash
# runs every registered quick (or $1=thorough) check; prints one line each
cd "$(dirname "$0")/.."
tier=${1:-quick}
for id in C01 C02 C03 C04 C05 C06 C07 C08 C09 C10 C11 C12 C13 C14 C15 C16 C17 C18 C19 C20; do
  s=$(date +%s)
  out=$(./check $id --tier $tier 2>&1); rc=$?
  e=$(( $(date +%s) - s ))
  echo "$id rc=$rc ${e}s $(echo "$out" | grep -c '^VIOLATION') violations $(echo "$out" | grep -c '^KNOWN') known"
  if [ $rc -ne 0 ]; then echo "$out" | grep -A1 '^VIOLATION\|HARNESS\|Error' | head -8; fi
done
